#!/bin/sh
# Builds /verif/.venv: a venv on /venv's interpreter that sees /venv's
# site-packages (mistral's dependencies) and /repo, plus the solver tooling
# from the offline wheelhouse.  Idempotent; offline.
set -e
cd "$(dirname "$0")"
V=/verif/.venv
if [ ! -x "$V/bin/python" ] || ! "$V/bin/python" -c "import z3, crosshair" 2>/dev/null; then
  rm -rf "$V"
  /venv/bin/python -m venv "$V"
  SP=$("$V/bin/python" -c "import sysconfig; print(sysconfig.get_paths()['purelib'])")
  printf '%s\n%s\n' "/venv/lib/python3.12/site-packages" "/repo" > "$SP/zz_mistral_overlay.pth"
  PIP_NO_INDEX=1 "$V/bin/pip" install -q --no-index --find-links /opt/veriftools/wheels \
      z3-solver crosshair-tool cvc5
fi
"$V/bin/python" -c "import z3, crosshair, cvc5; print('verif venv ok: z3', z3.get_version_string())"
