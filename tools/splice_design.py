#!/usr/bin/env python3
"""tools/splice_design.py - (re)writes the per-property sections of
DESIGN.md §3: a hand-written composition note (below) followed by the
obligation list generated from the live registry.
Run: /verif/.venv/bin/python tools/splice_design.py"""
import io
import os
import re
import subprocess
import sys

HERE = os.path.dirname(os.path.dirname(os.path.abspath(__file__)))

NOTES = {
 'C01': ('every run finishes with the outcome its definition prescribes',
  "A run can only stall or end wrongly if (i) a completed task's follow-ups "
  "are not computed / dispatched, (ii) a join never leaves WAITING although "
  "its inbound set is decided, (iii) the completion check is not registered "
  "after the last task, or (iv) the completion verdict is wrong.  (ii) is the "
  "join lemma C01.2 over *arbitrary* upstream states; (i), (iii), (iv) are "
  "observed together by C01.E: whole runs of the real engine for every "
  "outcome / guard assignment and every delivery order within the bound, "
  "compared at quiescence with the reference semantics (final workflow state, "
  "every task's state, nothing left WAITING / RUNNING, no undeclared error, "
  "no failed post-commit operation).  Generalisation from the 9 shapes to all "
  "workflows is argued from the fact that the engine's decisions are local "
  "(one completed task, its clauses, the joins reachable from it) and the "
  "catalogue contains every clause kind and join kind; it is not machine "
  "checked.  Beyond the catalogue: C01.G makes the *shape itself* a solver "
  "choice (every forward-route direct workflow over 3 / 4 tasks, plain and "
  "guarded routes, joins all / one / N), C01.R does the same for reverse "
  "workflows (every 'requires' DAG over 4 / 5 tasks, every target) with a "
  "dependency-cone reference and the invariant 'no task before the tasks it "
  "requires succeeded', and C01.F injects a declared error at the k-th "
  "expression evaluation / action start (k a solver choice) of a "
  "policy-rich workflow: the run must still come to rest finished."),
 'C02': ('result independent of event order, timing, caches',
  "Two whole runs with equal outcomes are compared (C02.E): one in a "
  "solver-chosen order — also with the spec caches dropped before every event "
  "(engine restart / cache eviction) and with post-commit batches deferred — "
  "against FIFO.  The order-sensitive kernels are additionally decided over "
  "unbounded values: version merge is commutative / associative (C02.1), join "
  "commands leave the dispatcher in one global lock order (C02.3)."),
 'C03': ('lifecycle respected, finished results final',
  "C03.1 decides the transition table against the property's relation, C03.q "
  "that the state updates are true compare-and-swaps (criterion taken from "
  "oslo.db), C03.E that in whole runs with two solver-chosen operator "
  "commands at solver-chosen points every committed state change is a chain "
  "of legal CAS moves and nothing final changes."),
 'C04': ('no task before its prerequisites; a join runs exactly once',
  "C04.1 = the join lemma (never logically RUNNING before enough inbound "
  "tasks completed *and* routed).  C04.E checks after every delivery of whole "
  "runs that a started join has its prerequisites and nothing is created "
  "twice.  C04.3 covers what a single process cannot show: two engine "
  "processes creating the same join, and two refresh jobs of one join, with "
  "solver-chosen statement interleaving.  C04.G repeats C04.E's invariants "
  "over every generated 3 / 4-task shape that contains a join.  Reverse "
  "workflows: the invariant "
  "of C01.R (a task is created only after every task it requires is "
  "SUCCESS) over all generated 'requires' DAGs."),
 'C05': ('a task sees exactly the data of its causal predecessors',
  "C05.E runs fan-out / fan-in data-flow shapes with the real YAQL evaluator: "
  "completion order, task id order and the listing order of the unordered "
  "upstream SELECT are solver variables; the join must see the value of the "
  "latest publisher on a causal path.  C05.4 decides the union of task-level "
  "and transition-level publish, C05.3 the documented lookup order over "
  "symbolic layer presence in both expression syntaxes.  C05.G: every "
  "forward-route DAG over 4 tasks x every subset of publishers x every "
  "listing order, against a causal reference (the value seen is that of a "
  "maximal publisher among the causal ancestors)."),
 'C06': ('duplicates have the effect of one delivery',
  "C06.E duplicates any one message at any of the first 14–20 positions "
  "(sequentially: the copy arrives after the first was committed); C06.5 "
  "hands both copies to two engine processes at once; C06.3 repeats a start "
  "request with an id; C06.4 decides the executor's redelivery logic over "
  "symbolic flags and outcome kinds; C06.R rolls back an engine transaction "
  "with a DBDeadlock at a solver-chosen statement of a solver-chosen "
  "delivery: the retried (or transport-redelivered) handler must have the "
  "effect of one execution."),
 'C07': ('with-items: once per item, within concurrency, ordered results',
  "One obligation, whole runs: item count, concurrency (absent / literal / "
  "expression), every item outcome, completion order, rerun reset flag and "
  "new outcomes are solver variables; invariants (≤ concurrency RUNNING, no "
  "index running or accepted twice, no completion with items running) after "
  "every delivery; result order and final state at the end; second passes "
  "(rerun) with concurrency below the item count."),
 'C08': ('task policies',
  "Whole runs of policy-carrying tasks; timers are events whose order "
  "relative to results is a solver choice; per-attempt outcomes and policy "
  "expression values symbolic; the same definition run twice in one process "
  "with different expression values (no leakage through cached objects)."),
 'C09': ('sub-workflow and parent task consistent',
  "Whole runs of 3-level nesting and with-items over sub-workflows, started "
  "in-process and through the message bus, with the definitions placed by the "
  "solver in the caller's namespace / the default one / both; C09.3 decides "
  "that undeclared input never overrides engine-owned parameters."),
 'C10': ('pause creates no new tasks; resume continues',
  "Whole runs with the pause request at every position among the first 10–16 "
  "deliveries (and the `pause` engine command in front of a join); while "
  "PAUSED nothing is created (Explorer invariant); after resume the final "
  "state and task states must equal the reference for an unpaused run.  "
  "C10.T: pause / resume commands addressed to the root or to one of two "
  "sub-workflows (with-items and join shapes) at solver-chosen points: an "
  "execution the operator holds paused stays PAUSED after every delivery, "
  "and the released tree finishes like an unpaused run (found F29, F30).  "
  "C10.W: the pause lands while a with-items task (concurrency none / 1 / "
  "2) or a retry + wait-after is in flight."),
 'C11': ('stop / cancel end the whole tree; late results change nothing',
  "Whole runs with a stop (state and position symbolic, optionally after a "
  "pause, on the root or on a sub-workflow, also while commands wait in the "
  "backlog); afterwards every in-flight event is delivered: nothing is "
  "created in the stopped execution or below a cancelled one, state / message "
  "/ output stay, sub-workflows report exactly once."),
 'C12': ('rerun / skip of a failed task',
  "First run with symbolic outcomes until ERROR, then rerun / skip of a "
  "solver-chosen failed task with symbolic reset flag and new outcome; the "
  "whole chain above goes back to RUNNING, exactly one new action runs, and "
  "the run ends as the reference says for the new outcome; two sub-workflows "
  "of one with-items task rerun concurrently."),
 'C13': ('scheduled jobs: once, not early, crash-safe, only if committed',
  "C13.1 decides the due-jobs predicate over a symbolic row / clock / "
  "configuration; C13.2 that two captures from one snapshot cannot both win; "
  "C13.3 runs the real `DefaultScheduler` in 1–3 instances as actors on "
  "minidb with symbolic clock, commit / rollback of the scheduling "
  "transaction and crashes at any hand-off; C13.4 `has_scheduled_jobs`."),
 'C14': ('validation total; accepted definitions stable and runnable',
  "C14.1: for every single structural mutation (solver-chosen site, operator, "
  "replacement from a catalogue of wrong types / malformed expressions / odd "
  "names) of 5 base documents, rendered as YAML text: validator and create / "
  "update services answer with acceptance or a definition error; an accepted "
  "spec equals the spec rebuilt from its stored form (through a JSON column); "
  "the rows hold what was written.  C14.2: every integer leaf replaced by a "
  "symbolic integer that flows through the *real* jsonschema validators: "
  "policies accepted iff ≥ 0, join count only if it can be met, data values "
  "always, getters return the value written, rebuilt spec equal — each path "
  "cross-checked against a plain int with the model value.  C14.3: every "
  "explored spelling of a workbook text: no internal error and the stored "
  "member definition parses to the member written.  C14.4 (\"runnable\"): "
  "every accepted mutated workflow is started on the real engine and run to "
  "rest: final or paused state, only declared errors (found F28)."),
 'C15': ('tenant isolation',
  "C15.1 runs every get / load / list function of the 11 secured resource "
  "types on minidb: the real WHERE clause (incl. `_secure_query` and the "
  "membership sub-query) over a row with symbolic owner / scope under a "
  "caller with symbolic admin flag and membership status.  C15.2 the same "
  "for every update / delete function (finds F9), C15.3 ownership of created "
  "rows."),
 'C16': ('every REST operation authorised and guarded first',
  "C16.1 walks the live controller tree: every exposed method is executed "
  "with the verdict of each policy rule a solver variable and recording stubs "
  "for database / RPC / services — a rule is asked before the first effect, a "
  "denied caller gets 403 with zero effects.  C16.2 translates the oslo.policy "
  "check trees of all registered rules to z3.  C16.4 decides the state-change "
  "guards of executions / tasks / action executions over symbolic current and "
  "requested states."),
 'C17': ('cron trigger fires once per due time, never more than its count',
  "C17.1 the due predicate and the CAS criterion; C17.2 one advance step over "
  "symbolic remaining count / times with `croniter` an arbitrary strictly "
  "later time; C17.3 2–3 processors as actors on minidb with solver-chosen "
  "interleaving, clock readings, unordered-SELECT results and a crash between "
  "advance and start."),
 'C18': ('expiration policy deletes only what it is configured to',
  "C18.1 candidate predicates (expired / superfluous) over symbolic rows; "
  "C18.2 one whole evaluation of the real policy on minidb over 3–4 root "
  "executions (one with a sub-tree) with symbolic states and ages under the "
  "configuration catalogue incl. unset options: terminates, no exception, "
  "deletes exactly the configured set closed under children; C18.3 enabling "
  "condition."),
 'C19': ('egress filter',
  "C19.1 `validate_url` + the real `ipaddress` membership over k ≤ 3 resolved "
  "addresses with full-width symbolic values under the deny-list catalogue; "
  "C19.2 scheme / host / allow-list logic; C19.3 the default deny list; C19.4 "
  "both call sites; C19.v differential validation of the resolver stub against "
  "the real numeric `getaddrinfo` on solver-chosen boundary addresses."),
 'C20': ('lost executors and stuck tasks',
  "C20.1 the expiry predicate over a symbolic action row / clock / settings; "
  "C20.2 one checker pass over a batch incl. a broken action; C20.3 checker ‖ "
  "genuine result ‖ heartbeat as actors (finds F19); C20.4 the integrity "
  "check over symbolic update times and delay; C20.5 enabling conditions."),
}


def main():
    out = subprocess.run([sys.executable,
                          os.path.join(HERE, 'tools',
                                       'gen_obligations_md.py')],
                         stdout=subprocess.PIPE, stderr=subprocess.DEVNULL,
                         cwd=HERE).stdout.decode()
    parts = {}
    cur = None
    for line in out.splitlines():
        m = re.match(r'#### (C\d\d) obligations', line)
        if m:
            cur = m.group(1)
            parts[cur] = []
            continue
        if cur:
            parts[cur].append(line)
    p = os.path.join(HERE, 'DESIGN.md')
    s = io.open(p, encoding='utf8').read()
    for prop, (title, note) in sorted(NOTES.items()):
        body = ('<!-- BEGIN:%s -->\n### %s — %s\n\n%s\n\n%s\n<!-- END:%s -->'
                % (prop, prop, title, note,
                   '\n'.join(parts.get(prop, [])).strip(), prop))
        marker = '<!-- GENERATED:%s -->' % prop
        if marker in s:
            s = s.replace(marker, body)
        else:
            s = re.sub(r'<!-- BEGIN:%s -->.*?<!-- END:%s -->' % (prop, prop),
                       lambda m_: body, s, flags=re.S)
    io.open(p, 'w', encoding='utf8').write(s)


if __name__ == '__main__':
    main()
