#!/bin/sh
# tools/thorough_all.sh [PROPS...] - thorough tier of the given (default: all) checks, one after the other
cd "$(dirname "$0")/.."
P="$@"
[ -n "$P" ] || P=$(python3 -c "import json;print(' '.join(c['property_id'] for c in json.load(open('MANIFEST.json'))['checks']))")
mkdir -p work
for p in $P; do
  s=$(date +%s)
  ./check $p --tier thorough > work/thorough_$p.log 2>&1
  rc=$?
  e=$(date +%s)
  echo "$p exit=$rc $((e-s))s $(grep -c '^VIOLATION' work/thorough_$p.log) violations, $(grep -c KNOWN-FINDING work/thorough_$p.log) known, $(grep -c HARNESS-ERROR work/thorough_$p.log) harness errors, $(grep -c 'inconclusive' work/thorough_$p.log) inconclusive"
  grep -E "^VIOLATION|HARNESS-ERROR|inconclusive" work/thorough_$p.log | cut -c1-300 | head -8
done
