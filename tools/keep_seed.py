#!/usr/bin/env python3
"""tools/keep_seed.py <src-dir> <seed-id> <caught-by> <note>  - copy a
confirmed seeded defect into /verif/seeded/<seed-id>/ and extend meta.json"""
import json, os, shutil, sys
src, sid, caught, note = sys.argv[1:5]
dst = os.path.join('/verif/seeded', sid)
os.makedirs(dst, exist_ok=True)
for f in ('patch.diff', 'demo_test.py', 'meta.json'):
    shutil.copy(os.path.join(src, f), os.path.join(dst, f))
m = json.load(open(os.path.join(dst, 'meta.json')))
m['confirmed_by_builder'] = ('demo passes on the clean tree and fails with '
                             'the patch applied (tools/try_seed.sh); the '
                             'patch applies to /repo HEAD')
m['caught_by'] = caught
m['note'] = note
json.dump(m, open(os.path.join(dst, 'meta.json'), 'w'), indent=1)
print('kept', dst)
