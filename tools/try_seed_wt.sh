#!/bin/sh
# tools/try_seed_wt.sh <seed-dir> <PROPERTY> [tier] [--only OBL]
# Like try_seed.sh but leaves /repo alone: the patch is applied in a scratch
# worktree and the check runs against it (VERIF_REPO).  For development while
# long runs use /repo; the final confirmation of a seed uses try_seed.sh.
D="$1"; P="$2"; T="${3:-quick}"
shift; shift; [ $# -gt 0 ] && shift
W=/tmp/wt_try_$$
git -C /repo worktree add --detach $W HEAD >/dev/null 2>&1 || exit 2
cd $W
echo "== demo on clean tree"
(timeout -s KILL 400 /venv/bin/python -m pytest -q -p no:cacheprovider "$D/demo_test.py" > /tmp/seed_demo_clean_$$.log 2>&1; true)
grep -a -E "passed|failed|error" /tmp/seed_demo_clean_$$.log | tail -1
git apply "$D/patch.diff" || { echo "patch does not apply"; git -C /repo worktree remove --force $W; exit 2; }
echo "== demo with patch"
(timeout -s KILL 400 /venv/bin/python -m pytest -q -p no:cacheprovider "$D/demo_test.py" > /tmp/seed_demo_patched_$$.log 2>&1; true)
grep -a -E "passed|failed|error" /tmp/seed_demo_patched_$$.log | tail -1
echo "== check $P --tier $T $@ (VERIF_REPO=$W)"
(cd /verif && VERIF_REPO=$W ./check "$P" --tier "$T" "$@" > /tmp/seed_check_$$.log 2>&1; echo "exit=$?" >> /tmp/seed_check_$$.log)
grep -E "VIOLATION|exit=|refuted|HARNESS|KNOWN" /tmp/seed_check_$$.log | cut -c1-220 | head -12
git -C /repo worktree remove --force $W
git -C /verif checkout -- evidence replays 2>/dev/null; git -C /verif clean -fq replays evidence 2>/dev/null
