#!/bin/sh
# tools/run_all.sh [tier]  - every registered check, sequentially; summary
T="${1:-quick}"
cd /verif
for p in $(python3 -c "import json;print(' '.join(c['property_id'] for c in json.load(open('MANIFEST.json'))['checks']))"); do
  s=$(date +%s)
  ./check $p --tier $T > work/all_$p.log 2>&1
  rc=$?
  e=$(date +%s)
  echo "$p exit=$rc $((e-s))s $(grep -c VIOLATION work/all_$p.log) violations, $(grep -c KNOWN-FINDING work/all_$p.log) known, $(grep -c HARNESS-ERROR work/all_$p.log) harness errors, $(grep -c inconclusive work/all_$p.log) inconclusive"
done
