#!/bin/sh
# tools/try_seed.sh <seed-dir> <PROPERTY> [tier] [--only OBL]
# Applies <seed-dir>/patch.diff to /repo, runs the seed's demonstration and our
# check, and ALWAYS restores /repo afterwards.
D="$1"; P="$2"; T="${3:-quick}"
shift; shift; [ $# -gt 0 ] && shift
cd /repo || exit 2
if [ -n "$(git status --porcelain)" ]; then echo "/repo not clean"; exit 2; fi
echo "== demo on clean tree"
(timeout -s KILL 400 /venv/bin/python -m pytest -q -p no:cacheprovider "$D/demo_test.py" > /tmp/seed_demo_clean.log 2>&1; true)
grep -a -E "passed|failed|error" /tmp/seed_demo_clean.log | tail -1
git apply "$D/patch.diff" || { echo "patch does not apply"; exit 2; }
echo "== demo with patch"
(timeout -s KILL 400 /venv/bin/python -m pytest -q -p no:cacheprovider "$D/demo_test.py" > /tmp/seed_demo_patched.log 2>&1; true)
grep -a -E "passed|failed|error" /tmp/seed_demo_patched.log | tail -1
echo "== check $P --tier $T $@"
(cd /verif && ./check "$P" --tier "$T" "$@" > /tmp/seed_check.log 2>&1; echo "exit=$?" >> /tmp/seed_check.log)
grep -E "VIOLATION|exit=|refuted|HARNESS|KNOWN" /tmp/seed_check.log | cut -c1-220 | head -12
git checkout -- . ; git status --porcelain | head -3
# evidence / replays written while the seed was applied are not evidence
git -C /verif checkout -- evidence replays 2>/dev/null; git -C /verif clean -fq replays evidence 2>/dev/null
