#!/usr/bin/env python3
"""tools/gen_obligations_md.py  - prints the per-property obligation tables
of DESIGN.md §3 from the live registry (so the document cannot drift from
the harnesses).  Run with /verif/.venv/bin/python."""
import importlib
import os
import sys
sys.path.insert(0, os.path.dirname(os.path.dirname(os.path.abspath(__file__))))
from vt import kit  # noqa

props = ['C%02d' % i for i in range(1, 21)]
for p in props:
    try:
        importlib.import_module('vt.harness.%s' % p)
    except ImportError:
        continue
for p in props:
    obs = [o for o in kit.REGISTRY.values() if o.id.split('.')[0] == p]
    if not obs:
        continue
    print('#### %s obligations (generated from the registry)\n' % p)
    for o in obs:
        b = o.bounds
        if isinstance(b, dict):
            bq, bt = b.get('quick'), b.get('thorough')
        else:
            bq, bt = b, None
        print('* **%s** [%s] — %s' % (o.id, o.engine,
                                      ' '.join(o.doc.split())))
        print('  * real code: %s' % ', '.join(
            '`%s`' % f.split(':')[-1] for f in o.functions[:14]) + (
            ' … (%d functions, full list in the evidence file)'
            % len(o.functions) if len(o.functions) > 14 else ''))
        print('  * bound (quick): %s' % ' '.join(str(bq).split()))
        if bt:
            print('  * bound (thorough): %s' % ' '.join(str(bt).split()))
        if o.stubs:
            print('  * stubs: %s' % '; '.join(o.stubs))
        if o.outside:
            print('  * outside the claim: %s' % ' '.join(o.outside.split()))
    print()
