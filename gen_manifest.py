#!/usr/bin/env python3
"""Writes MANIFEST.json from the table below (kept in one place so that the
manifest always validates)."""
import json
import os

HERE = os.path.dirname(os.path.abspath(__file__))

LEVEL_NOTE = ('Bounded: holds for all values of the symbolic inputs inside the '
              'bounds recorded per obligation in the evidence file; nothing is '
              'claimed outside. Trusted: z3 5.1, CPython 3.12, the symx '
              'proxies/translators in /verif/vt, the environment stubs listed '
              'per obligation, and the paper composition from lemmas to the '
              'property in DESIGN.md.')

CHECKS = {
    'C19': ('symbolic execution (symx: z3 proxies + path DFS) of the real '
            'validate_url / ipaddress membership over full-width symbolic '
            'addresses; z3 decides every path; models replayed on the real '
            'function with the real resolver',
            'For every deny-list configuration in the catalogue and every '
            'tuple of <=3 resolved addresses (32/128-bit symbolic), accepted '
            'implies no address denotes a denied network (IPv4-mapped IPv6 '
            'included); scheme/host/allow-list logic and both call sites '
            'covered; default deny-list covers loopback/link-local/metadata.',
            '§3 C19'),
}

NOT_APPLICABLE = []

CHECKS['C14'] = (
    'symbolic execution (symx) of the real YAML loader, jsonschema '
    'validation, spec classes and definition services: the mutation applied '
    'to a valid definition (site, operator, replacement value, formatting of '
    'the workbook text) is a solver choice explored exhaustively, and integer '
    'leaves are symbolic integers (an int subclass carrying a z3 term) that '
    'flow through the real jsonschema validators and spec constructors; z3 '
    'decides every path',
    'For 5 base documents and every single structural mutation from the '
    'catalogue (wrong types, missing / extra / odd keys, malformed '
    'expressions), validation and the create / update services answer with '
    'acceptance or a definition error, never an internal error or a hang; an '
    'accepted spec equals the spec rebuilt from its stored form and what the '
    'database holds is what was written; for ALL integers at every integer '
    'leaf policies are accepted iff >= 0 and a join count only if it can be '
    'met; every workbook member stored is the member written, for every '
    'explored spelling of the workbook text. Arbitrary non-YAML text is '
    'outside the claim.',
    '§3 C14')

CHECKS['C16'] = (
    'symbolic execution of every exposed controller method (enumerated from '
    'the live controller tree) with the verdict of each policy rule as a '
    'solver variable and recording stubs for database / RPC / services; the '
    'oslo.policy check trees of all registered rules translated to z3 '
    '(polir); symbolic state-change requests through the real guards',
    'Every exposed method with a documented rule asks a registered rule '
    'before its first effect, a denied caller gets 403 with zero effects, '
    'cross-project listing asks an admin-only rule; no rule is weaker than '
    'admin-or-owner and list:all_projects / publicize are admin-only; '
    'execution / task state changes and execution deletion reach the engine '
    'or the database only for the documented moves.',
    '§3 C16')

CHECKS['C15'] = (
    'symbolic execution of every get / load / list / update / delete db-api '
    'function of the 11 secured resource types on minidb: the real WHERE '
    'clause each function builds (incl. _secure_query and the membership '
    'sub-query) is interpreted over a row with symbolic owner and scope '
    'under a caller with symbolic admin flag and membership status',
    'A row is returned iff own, public, shared through an accepted '
    'membership, or the caller is admin (pending / rejected never admit); a '
    'write takes effect only for the owner or an admin; created rows belong '
    'to the caller. Known finding F9 (public rows writable by non-owners '
    'through 13 mutators) is reported per function.',
    '§3 C15')

CHECKS['C20'] = (
    'symbolic execution of the expiry query and checker pass over a symbolic '
    'action row and symbolic clock / settings (sqlir on minidb), of the '
    'integrity check over symbolic update times, and actor interleavings of '
    'the checker against a genuine result on the real engine',
    'An action is expired iff RUNNING, synchronous and silent beyond '
    'max_missed*interval (first-heartbeat grace from the model default); '
    'expired actions fail with the heartbeat error and normal error handling '
    'follows, a broken one does not stop the batch, late results change '
    'nothing; the integrity check re-triggers exactly the stuck tasks past '
    'the delay; enabling conditions. Known finding F19 (expiry overwrites a '
    'just-accepted result under overlapping transactions) is reported.',
    '§3 C20')

CHECKS['C05'] = (
    'bounded exploration of real engine runs of fan-out / fan-in data-flow '
    'shapes on minidb with completion order, task id order and outcomes as '
    'solver variables and the real YAQL evaluator on the values; symbolic '
    'execution of the context lookup over layer presence with the real YAQL '
    'and Jinja evaluators',
    'At the join every variable carries the value of the latest task on a '
    'causal path (nested and 3-deep values merge per leaf), never a stale '
    'inherited copy, for every explored completion / id order; stored '
    'inbound contexts are not modified; task-level and transition-level '
    '(branch + global) publish are united; lookups follow the documented '
    'layer order in both syntaxes.',
    '§3 C05')

CHECKS['C09'] = (
    'bounded exploration of real engine runs of nested workflows on minidb '
    '(3 levels, with-items over sub-workflows, in-process and via the '
    'message bus): action outcomes and delivery order are solver variables; '
    'collision cases for undeclared input names',
    'In every explored run the parent task mirrors the child\'s final state '
    'and output, the parent continues exactly once per child completion, '
    'every descendant records root execution and namespace and evaluates '
    'against the root environment, undeclared input becomes parameters but '
    'never overrides engine-owned ones, one child per item with ordered '
    'results.',
    '§3 C09')

CHECKS['C08'] = (
    'bounded exploration of real engine runs of policy-carrying tasks on '
    'minidb: per-attempt outcomes, policy expression values and the order of '
    'timer jobs relative to results are solver variables',
    'Retry makes <= count+1 attempts, stops at the first success / '
    'continue-on false / break-on true with one delayed continuation per '
    'retry, and the last attempt decides state, accepted result and routing; '
    'wait-before / wait-after postpone without loss; timeout fails only an '
    'incomplete task; fail-on and pause-before behave as documented; '
    'task-level policies override task-defaults.',
    '§3 C08')

CHECKS['C07'] = (
    'bounded exploration of real engine runs of a with-items task on minidb: '
    'item count, concurrency (absent / literal / expression), every item '
    'outcome, completion order, rerun reset flag and new outcomes are solver '
    'variables; invariants after every delivery',
    'For 0..3 (thorough 0..4) items: never more RUNNING items than the '
    'concurrency, no index running or accepted twice, completion only after '
    'all items; one accepted result per item, results in item order, ERROR '
    'iff an item failed, empty list succeeds at once; a rerun re-executes '
    'all items (reset) or exactly the failed ones.',
    '§3 C07')

CHECKS['C03'] = (
    'symbolic execution of the transition table and of the compare-and-swap '
    'state updates (criterion taken from the SQLAlchemy / oslo.db tree over a '
    'symbolic row), and bounded exploration of real engine runs with two '
    'solver-chosen operator commands at solver-chosen points',
    'The table admits only transitions the property allows and never leaves '
    'SUCCESS; state updates are true CAS; in every explored run with pause / '
    'resume / stop commands injected anywhere, every workflow state change is '
    'a chain of legal CAS moves, SUCCESS tasks and accepted action results '
    'never change, finished workflows keep state and output.',
    '§3 C03')

CHECKS['C06'] = (
    'bounded exploration of real engine runs on minidb where the duplicated '
    'message, its position and redelivery point and the action outcomes are '
    'solver variables; symbolic execution of the executor\'s redelivery '
    'logic over symbolic flags and outcome kinds',
    'With any one engine message or scheduler job delivered twice (thorough: '
    'three times) the run ends as the reference says, no action is '
    'dispatched twice, no second result accepted, no task created twice; a '
    'start request with an id is idempotent; the executor never runs an '
    'unsafe redelivered action and reports at most one result.',
    '§3 C06')

CHECKS['C12'] = (
    'bounded exploration of real engine runs on minidb: a first run with '
    'symbolic outcomes until the workflow is ERROR, then rerun / skip of a '
    'solver-chosen failed task with symbolic reset flag and new outcome; '
    'invariants after every delivery and the reference semantics at the end',
    'After rerun the task\'s workflow, every enclosing workflow and parent '
    'task are RUNNING, exactly one new action runs and only its result is '
    'accepted, and the run ends as the language prescribes for the new '
    'outcome; skip gives SKIPPED without running the action and follows '
    'on-skip, else on-success, never on-complete.',
    '§3 C12')

CHECKS['C11'] = (
    'bounded exploration of real engine runs on minidb in which the stop '
    'request (state, position, optionally after a pause, on the root or on a '
    'sub-workflow) and the action outcomes are solver variables; invariants '
    'after every delivery, tree checks at quiescence',
    'A stopped execution holds the requested state and message (or the '
    'request is refused with a declared error); nothing is created in it '
    'afterwards, late results change neither state nor output; after a '
    'cancel every sub-workflow below is finished, reports exactly once and '
    'its parent task carries the same state. Known finding F16 reported.',
    '§3 C11')

CHECKS['C10'] = (
    'bounded exploration of real engine runs on minidb in which the position '
    'of the pause request, the action outcomes and guard values (and, '
    'thorough, the delivery order) are solver variables; invariants after '
    'every delivery and the reference semantics at quiescence',
    'For 6 shapes (incl. the pause engine command in front of a join): while '
    'PAUSED no task execution appears and results are still recorded; after '
    'resume the run ends with exactly the final state and task states of an '
    'unpaused run, for every pause position in the first 10-16 deliveries.',
    '§3 C10')

CHECKS['C04'] = (
    'symbolic execution of the real join evaluation over symbolic upstream '
    'rows; bounded exploration of real engine runs with join invariants '
    'checked after every delivery; two engine processes racing to create '
    'the same join with solver-chosen statement interleaving on minidb '
    '(READ COMMITTED overlay, unique-index and row locks)',
    'A join is logically RUNNING / ERROR exactly when the reference says; in '
    'all explored runs a started join has the required completed-and-routed '
    'inbound tasks and no task is created twice; under every interleaving '
    'with <= 2-3 context switches of two concurrent branch completions '
    'exactly one join row survives and the join runs once. Known finding '
    'F14 (late inbound branch resets a started join) is reported.',
    '§3 C04')

CHECKS['C02'] = (
    'bounded exploration of pairs of runs of the real engine on minidb '
    '(delivery order, action outcomes, guard values, id order as solver '
    'variables; spec caches dropped / post-commit batches deferred) plus '
    'symbolic execution of the merge and dispatcher kernels; z3 decides '
    'every path',
    'For 6 shapes, two runs with equal outcomes agree on final state, output, '
    'task states, published variables and inbound contexts for every '
    'explored order, with cache eviction before every event and with '
    'deferred post-commit batches; merge_context_by_version is commutative / '
    'associative under the no-conflict assumption; join commands always '
    'leave the dispatcher in one global lock order.',
    '§3 C02')

CHECKS['C01'] = (
    'symbolic execution of the real workflow controller over task rows with '
    'symbolic existence / state / routing (join lemma, differential against '
    'a reference fixpoint), and bounded exploration of whole runs of the '
    'real engine on minidb where action outcomes, guard values and delivery '
    'order are solver variables, compared with a reference semantics; z3 '
    'decides every path',
    'Join logical state = reference for 7 shapes over all symbolic upstream '
    'states (incl. cycles, depth > MAX_SEARCH_DEPTH); for 9 shapes every '
    'outcome/guard assignment and every delivery order within the preemption '
    'bound ends finished, with the task and workflow states the language '
    'prescribes, without undeclared errors or lost post-commit operations.',
    '§3 C01')

CHECKS['C18'] = (
    'symbolic execution of the real expiration policy and db-api on minidb: '
    'the captured WHERE / ORDER BY / OFFSET / LIMIT trees are interpreted '
    'over rows with symbolic state and updated_at, cascades from the real '
    'foreign keys; z3 decides every path',
    'Candidate predicates for one / three symbolic rows; one whole evaluation '
    'over 3-4 root executions (one with a nested sub-tree) with symbolic '
    'states and ages under 6 (quick) / 88 (thorough) settings incl. unset '
    'older_than: terminates, no exception, deletes exactly what is configured, '
    'never tears a tree, never a newer one before an older eligible one.',
    '§3 C18')

CHECKS['C17'] = (
    'symbolic execution of the real process_cron_triggers_v2 / '
    'advance_cron_trigger and db-api on minidb (captured SQLAlchemy clause '
    'trees interpreted over symbolic rows); processors are actors whose '
    'interleaving, clock readings, cron pattern result and unordered-SELECT '
    'row choice are solver variables; z3 decides every path',
    'Due predicate, CAS criterion, one advance step from an arbitrary valid '
    'trigger state, and 2-3 concurrent processors over one trigger (count '
    'symbolic) under all interleavings incl. one crash: one winner per due '
    'occurrence, fires <= count, removed when exhausted, right input / '
    'project, no confusion with a same-named public trigger elsewhere.',
    '§3 C17')

CHECKS['C13'] = (
    'symbolic execution of the real DefaultScheduler and db-api on an '
    'in-memory backend that interprets the captured SQLAlchemy clause trees '
    '(sqlir) over symbolic rows; interleavings of scheduler instances and '
    'clock readings are solver variables (symx actors); z3 decides every path',
    'Selection predicate, CAS capture, has_scheduled_jobs and the '
    'schedule/dispatch/capture/invoke/delete/poll protocol of up to 3 actors '
    'over one job under all interleavings and clock positions: not early, '
    'rolled back => never run, re-capture only after the timeout, exactly '
    'once when capturers finish in time, never lost.',
    '§3 C13')


def main():
    checks = []
    for pid in sorted(CHECKS):
        tech, text, ref = CHECKS[pid]
        checks.append({
            'property_id': pid,
            'quick_cmd': './check %s --tier quick' % pid,
            'thorough_cmd': './check %s --tier thorough' % pid,
            'evidence_file': 'evidence/%s.json' % pid,
            'replay_cmd_template': './check %s --replay {path}' % pid,
            'engine': 'symx+z3',
            'level_claimed': {'category': 'model_checking', 'text': text,
                              'design_ref': ref},
            'level_note': LEVEL_NOTE,
            'technique': tech,
        })
    m = {
        'version': 1,
        'setup_cmd': './setup.sh',
        'hooks': {
            'guard': 'MISTRAL_VERIF',
            'enable': 'no source hooks: all interposition is monkey-patching '
                      'inside the harness process (MISTRAL_VERIF=1 is '
                      'exported by ./check but read by nothing in /repo)',
            'baseline_off_cmd': 'cd /repo && /venv/bin/python -m pytest -ra '
                                '-q -p no:cacheprovider --timeout=900 '
                                '--continue-on-collection-errors',
            'source_commits': [],
            'add_only': True,
        },
        'engines': [
            {'name': 'symx', 'path': 'vt/symx.py',
             'serves_properties': sorted(CHECKS),
             'kind_free_text': 'symbolic execution of unmodified Python with '
                               'z3 proxy values and exhaustive path DFS'},
        ],
        'checks': checks,
        'not_applicable': NOT_APPLICABLE,
        'notes': 'See DESIGN.md. Exit codes: 0 held, 1 VIOLATION, 2 harness '
                 'error. known_findings.json lists genuine defects.',
    }
    with open(os.path.join(HERE, 'MANIFEST.json'), 'w') as f:
        json.dump(m, f, indent=1)
        f.write('\n')


if __name__ == '__main__':
    main()
