"""minidb + sqlir: an in-memory backend under the REAL
``mistral.db.v2.sqlalchemy.api``.

The real db-api functions build their SQLAlchemy queries as in production; the
terminal Query methods (all/first/one/count/delete/update) and oslo.db's
``update_returning_pk`` are intercepted and the *captured clause trees* - the
IR of that code: ``query.whereclause``, order_by, limit, offset, whose bind
parameters carry our proxy values - are interpreted over in-memory records
with SQL three-valued logic.  Column values may be symx proxies, so "is this
row selected" is a solver-decided branch and python code on top of a query
sees exactly the rows the real WHERE clause admits, for all values.

Store model
* committed state: per model an ordered map pk -> record (dict of column
  values);
* a Session has an identity map of real model instances (its own copies, as
  with SQLAlchemy), a list of pending inserts and an overlay of uncommitted
  writes (READ COMMITTED: others see them at commit; rollback drops them);
* flush happens before every statement of the session and at commit: pending
  instances get column defaults and unique-constraint checks (read from the
  real ``__table__``), dirty instances (top-level change of any column value,
  as SQLAlchemy's attribute/MutableDict tracking sees them) become UPDATEs of
  the changed columns;
* a write to a row another open session has written blocks (row lock) -
  ``MiniDB.on_block``; ON DELETE CASCADE / SET NULL are read from the real
  foreign keys.
"""
import collections
import contextlib
import copy
import datetime
import functools
import itertools
import threading

from vt import symx
from vt.symx import sym_and, sym_or, sym_not

PRIMS = (str, int, float, bool, type(None), datetime.datetime,
         datetime.date, bytes)


# ----------------------------------------------------------------------
# three valued logic: an SQL boolean is (T, F); unknown = not T and not F
# ----------------------------------------------------------------------
def _split(v):
    """value -> (isnull, payload)"""
    if v is None:
        return True, None
    return False, v


_PROXIES = (symx.SymInt, symx.SymEnum, symx.SymTime, symx.SymBool,
            symx.SymBV)


def _eq(a, b):
    if isinstance(a, _PROXIES):
        return a == b
    if isinstance(b, _PROXIES):
        return b == a
    return a == b


_CMP = {
    'eq': _eq,
    'ne': lambda a, b: sym_not(_eq(a, b)),
    'lt': lambda a, b: a < b,
    'le': lambda a, b: a <= b,
    'gt': lambda a, b: a > b,
    'ge': lambda a, b: a >= b,
}


def _cmp3(op, a, b):
    an, av = _split(a)
    bn, bv = _split(b)
    if an or bn:
        return False, False
    r = _CMP[op](av, bv)
    return r, sym_not(r)


def and3(xs):
    return (sym_and(*[t for t, f in xs]), sym_or(*[f for t, f in xs]))


def or3(xs):
    return (sym_or(*[t for t, f in xs]), sym_and(*[f for t, f in xs]))


def not3(x):
    return (x[1], x[0])


class Evaluator(object):
    def __init__(self, row):
        self.row = row

    def val(self, e):
        import sqlalchemy as sa
        from sqlalchemy.sql import elements as el
        if isinstance(e, el.BindParameter):
            return e.callable() if e.callable is not None else e.value
        if isinstance(e, el.Null):
            return None
        if isinstance(e, el.True_):
            return True
        if isinstance(e, el.False_):
            return False
        if isinstance(e, el.Grouping):
            return self.val(e.element)
        if isinstance(e, (sa.Column, el.ColumnClause)):
            return self.col(e)
        if isinstance(e, el.Tuple):
            return [self.val(c) for c in e.clauses]
        if isinstance(e, (el.ClauseList, el.ExpressionClauseList)) and \
                not isinstance(e, el.BooleanClauseList):
            return [self.val(c) for c in e.clauses]
        if isinstance(e, el.Cast):
            return self.val(e.clause)
        from sqlalchemy.sql import functions as fn
        if isinstance(e, fn.FunctionElement):
            name = (getattr(e, 'name', '') or '').lower()
            args = [self.val(c) for c in e.clauses]
            if name == 'coalesce':
                for a in args:
                    if a is not None:
                        return a
                return None
            if name in ('lower', 'upper') and len(args) == 1 and \
                    isinstance(args[0], (str, type(None))):
                return None if args[0] is None else getattr(
                    args[0], name)()
            raise symx.ProxyMisuse('sqlir: unsupported SQL function %s'
                                   % name)
        if hasattr(e, 'expression') and e.expression is not e:
            return self.val(e.expression)
        raise symx.ProxyMisuse('sqlir: unsupported value node %s: %s'
                               % (type(e).__name__, e))

    def col(self, c):
        key = getattr(c, 'key', None) or c.name
        row = self.row
        if isinstance(row, dict):
            if key in row:
                return row[key]
            raise symx.ProxyMisuse('sqlir: record has no column %s' % key)
        return getattr(row, key)

    def b3(self, e):
        from sqlalchemy.sql import elements as el
        from sqlalchemy.sql import operators as ops
        if e is None:
            return True, False
        if isinstance(e, el.BooleanClauseList):
            parts = [self.b3(c) for c in e.clauses]
            if e.operator is ops.and_:
                return and3(parts)
            if e.operator is ops.or_:
                return or3(parts)
            raise symx.ProxyMisuse('sqlir: clause list op %s' % e.operator)
        if isinstance(e, el.Grouping):
            return self.b3(e.element)
        if isinstance(e, el.True_):
            return True, False
        if isinstance(e, el.False_):
            return False, True
        if isinstance(e, el.UnaryExpression):
            if e.operator is ops.inv:
                return not3(self.b3(e.element))
            raise symx.ProxyMisuse('sqlir: unary %s' % e.operator)
        if isinstance(e, el.BinaryExpression):
            return self.binary(e)
        v = self.val(e)       # boolean column / bind used as predicate
        n, p = _split(v)
        if n:
            return False, False
        return p, sym_not(p)

    def binary(self, e):
        from sqlalchemy.sql import operators as ops
        op = e.operator
        names = {ops.eq: 'eq', ops.ne: 'ne', ops.lt: 'lt', ops.le: 'le',
                 ops.gt: 'gt', ops.ge: 'ge'}
        if op in names:
            return _cmp3(names[op], self.val(e.left), self.val(e.right))
        if op in (ops.is_, ops.is_not):
            l, r = self.val(e.left), self.val(e.right)
            rn, rv = _split(r)
            ln, lv = _split(l)
            if rn:
                t = ln
            elif ln:
                t = False
            else:
                t = _eq(lv, rv)
            res = (t, sym_not(t))
            return res if op is ops.is_ else not3(res)
        if op in (ops.in_op, ops.not_in_op):
            l = self.val(e.left)
            r = self.val(e.right)
            if not isinstance(r, (list, tuple, set, frozenset)):
                raise symx.ProxyMisuse('sqlir: IN over %r' % (r,))
            parts = [_cmp3('eq', l, x) for x in r]
            res = or3(parts) if parts else (False, True)
            return res if op is ops.in_op else not3(res)
        if op in (ops.like_op, ops.not_like_op):
            l, r = self.val(e.left), self.val(e.right)
            if l is None:
                return False, False
            if not isinstance(l, str) or not isinstance(r, str):
                raise symx.ProxyMisuse('sqlir: LIKE on symbolic value')
            import re
            rx = '^' + ''.join('.*' if ch == '%' else '.' if ch == '_'
                               else re.escape(ch) for ch in r) + '$'
            t = re.match(rx, l, re.S) is not None
            res = (t, not t)
            return res if op is ops.like_op else not3(res)
        if op is ops.contains_op:
            l, r = self.val(e.left), self.val(e.right)
            if l is None:
                return False, False
            t = r in l
            return t, not t
        raise symx.ProxyMisuse('sqlir: unsupported operator %s in %s'
                               % (op, e))


def admits(whereclause, row):
    """Does the WHERE clause select the row?  (SQL: only TRUE selects.)"""
    t, f = Evaluator(row).b3(whereclause)
    return t


# ----------------------------------------------------------------------
# the store
# ----------------------------------------------------------------------
class WouldBlock(BaseException):
    def __init__(self, holder):
        self.holder = holder


def columns_of(model):
    return [c.key for c in model.__table__.columns]


def _copy_val(v):
    """What a value looks like after a trip through the JSON column: a deep
    copy with tuples turned into lists (proxies are immutable: shared)."""
    if isinstance(v, dict):
        return {k: _copy_val(x) for k, x in v.items()}
    if isinstance(v, (list, tuple)):
        return [_copy_val(x) for x in v]
    return v


@functools.lru_cache(maxsize=None)
def mutable_columns(model):
    from mistral.db.sqlalchemy import types as st
    return frozenset(c.key for c in model.__table__.columns
                     if isinstance(c.type, st.JsonEncoded))


class MiniDB(object):
    def __init__(self, id_prefix='id'):
        self.tables = {}          # model -> OrderedDict pk -> record
        self._ids = itertools.count(1)
        self.id_prefix = id_prefix
        self.sessions = []
        self.log = []
        self.on_block = None      # callable(session, holder, key)
        self.on_op = None         # callable(session, opname)
        self.stmt_count = 0

    def table(self, model):
        return self.tables.setdefault(model, collections.OrderedDict())

    def new_id(self):
        return '%s-%04d' % (self.id_prefix, next(self._ids))

    def put(self, model, **values):
        """Harness helper: a committed record, defaults applied."""
        rec = {k: None for k in columns_of(model)}
        for k, v in values.items():
            if k not in rec:
                raise symx.HarnessError('%s has no column %s'
                                        % (model.__name__, k))
            rec[k] = v
        apply_defaults(self, model, rec)
        self.table(model)[rec['id']] = rec
        return rec

    def insert_committed(self, obj):
        """Harness helper: commit a transient model instance as a record."""
        model = type(obj)
        vals = {}
        for k in columns_of(model):
            v = obj.__dict__.get(k)
            if v is not None:
                vals[k] = v
        return self.put(model, **vals)

    def rows(self, model):
        return list(self.table(model).values())

    all_rows = rows

    def get(self, model, pk):
        return self.table(model).get(pk)


def apply_defaults(db, model, rec):
    for col in model.__table__.columns:
        key = col.key
        if rec.get(key) is not None:
            continue
        if col.primary_key and key == 'id':
            rec[key] = db.new_id()
            continue
        d = col.default
        if d is None:
            continue
        if d.is_scalar:
            rec[key] = d.arg
        elif d.is_callable:
            rec[key] = d.arg(_DefaultCtx(rec))


class _DefaultCtx(object):
    """what a context-sensitive column default sees"""

    def __init__(self, rec):
        self.current_parameters = rec

    def get_current_parameters(self, isolate_multiinsert_groups=True):
        return self.current_parameters


@functools.lru_cache(maxsize=None)
def unique_constraints(model):
    import sqlalchemy as sa
    out = []
    t = model.__table__
    for c in t.constraints:
        if isinstance(c, sa.UniqueConstraint):
            out.append(tuple(col.key for col in c.columns))
    for ix in t.indexes:
        if ix.unique:
            out.append(tuple(col.key for col in ix.columns))
    pk = tuple(col.key for col in t.primary_key.columns)
    if pk:
        out.append(pk)
    return tuple(out)


@functools.lru_cache(maxsize=None)
def referencing(model):
    """[(child model, fk column key, ondelete)] for FKs pointing at model.id"""
    out = []
    for m in all_models():
        for col in m.__table__.columns:
            for fk in col.foreign_keys:
                if fk.column.table is model.__table__:
                    out.append((m, col.key, (fk.ondelete or '').upper()))
    return tuple(out)


@functools.lru_cache(maxsize=None)
def all_models():
    from mistral.db.v2.sqlalchemy import models
    from mistral.db.sqlalchemy import model_base as mb
    out = []
    for mapper in mb.MistralModelBase.registry.mappers:
        out.append(mapper.class_)
    return tuple(out)


class _Meta(object):
    __slots__ = ('session', 'model', 'pk', 'loaded', 'shallow', 'deleted')


def _meta(inst):
    return inst.__dict__.get('_minidb')


class Session(object):
    """Stands in for a SQLAlchemy Session under mistral.db.sqlalchemy.base."""

    class _Url(object):
        drivername = 'minidb'

        @staticmethod
        def get_dialect():
            class D(object):
                name = 'minidb'
            return D

        @staticmethod
        def get_backend_name():
            return 'minidb'

    class _Bind(object):
        pass

    def __init__(self, db, name=None):
        self.db = db
        self.name = name or threading.current_thread().name
        self.identity = {}            # (model, pk) -> instance
        self.pending = []             # added, not yet flushed
        self.overlay = {}             # (model, pk) -> record | None
        self.locks = set()            # (model, pk)
        self.ulocks = []              # (model, cols, values) of own inserts:
        #                               the unique-index entries stay locked
        #                               until the transaction ends, even if
        #                               the row is deleted again (named locks)
        self.open = True
        self._to_delete = []
        self.explicit = False         # demarcated by start_tx()
        self.bind = Session._Bind()
        self.bind.url = Session._Url()
        self._cas = None
        db.sessions.append(self)

    # -- sqlalchemy surface used by mistral ----------------------------
    def query(self, *entities):
        import oslo_db.sqlalchemy.orm as oo
        return oo.Query(entities, session=self)

    def add(self, obj):
        if _meta(obj) is not None and _meta(obj).session is self:
            return
        if obj not in self.pending:
            self.pending.append(obj)

    def delete(self, obj):
        """session.delete(obj): DELETE ... WHERE pk at the next flush (a
        row that is already gone only produces a warning in SQLAlchemy)"""
        self._to_delete.append(obj)

    @property
    def dirty(self):
        # SQLAlchemy's Session.dirty is optimistic: an attribute set event
        # marks the instance dirty even if there is no net change
        import sqlalchemy as sa
        out = []
        for i in self.identity.values():
            m = _meta(i)
            if m is None or m.deleted:
                continue
            cs = sa.inspect(i).committed_state
            if any(k in cs for k in columns_of(m.model)):
                out.append(i)
        return out

    def expire_all(self):
        self.flush()
        for inst in list(self.identity.values()):
            self._reload(inst)

    def refresh(self, obj):
        self.flush()
        self._reload(obj)

    def expunge_all(self):
        self.identity.clear()

    @contextlib.contextmanager
    def begin_nested(self):
        yield self

    def connection(self, **kw):
        class C(object):
            class dialect(object):
                name = 'minidb'
        return C

    def merge(self, obj, load=True):
        return obj

    def execute(self, stmt, *a, **k):
        """Core DELETE / UPDATE statements (table.delete().where(...))."""
        from sqlalchemy.sql import dml
        model = None
        for m in all_models():
            if m.__table__ is stmt.table:
                model = m
        if model is None:
            raise symx.ProxyMisuse('execute on unknown table %s' % stmt.table)
        self._hand_off('execute')
        self.flush()
        n = 0
        if isinstance(stmt, dml.Insert):
            rec = {k: None for k in columns_of(model)}
            for c, v in stmt._values.items():
                rec[c if isinstance(c, str) else c.key] = \
                    Evaluator({}).val(v)
            apply_defaults(self.db, model, rec)
            self._check_unique(model, rec)
            key = (model, rec['id'])
            self._lock(key)
            self.overlay[key] = rec
            self.db.log.append((self.name, 'execute',
                                'Insert %s' % model.__name__))

            class RI(object):
                rowcount = 1
                inserted_primary_key = (rec['id'],)
            return RI()
        recs = [r for r in self.visible(model) if admits(stmt.whereclause, r)]
        for r in recs:
            key = (model, r['id'])
            self._lock(key)
            cur = self._visible_rec(key)
            if cur is None or not admits(stmt.whereclause, cur):
                continue
            if isinstance(stmt, dml.Delete):
                self.delete_record(model, r['id'])
            elif isinstance(stmt, dml.Update):
                vals = {(c if isinstance(c, str) else c.key):
                        Evaluator(cur).val(v)
                        for c, v in stmt._values.items()}
                self.write_record(model, r['id'], vals)
            else:
                raise symx.ProxyMisuse('execute(%s)' % type(stmt).__name__)
            n += 1

        class R(object):
            rowcount = n
        self.db.log.append((self.name, 'execute',
                            '%s %s x%d' % (type(stmt).__name__,
                                           model.__name__, n)))
        return R()

    # -- flush / commit ---------------------------------------------------
    def flush(self, objects=None):
        from oslo_db import exception as db_exc
        dels, self._to_delete = self._to_delete, []
        for obj in dels:
            m = _meta(obj)
            if m is None:
                continue
            key = (m.model, m.pk)
            self._hand_off('delete')
            self._lock(key)
            if self._visible_rec(key) is not None:
                self.delete_record(m.model, m.pk)
            m.deleted = True
            self.db.log.append((self.name, 'delete-obj', m.model.__name__))
        pend, self.pending = self.pending, []
        for obj in pend:
            model = type(obj)
            rec = {k: obj.__dict__.get(k) for k in columns_of(model)}
            apply_defaults(self.db, model, rec)
            self._check_unique(model, rec)
            key = (model, rec['id'])
            self._lock(key)
            self.overlay[key] = {k: _copy_val(v) for k, v in rec.items()}
            m = _Meta()
            m.session, m.model, m.pk = self, model, rec['id']
            m.deleted = False
            obj.__dict__['_minidb'] = m
            self.identity[key] = obj
            self._snapshot(obj, sync_from=rec)
            self.db.log.append((self.name, 'insert', model.__name__))
        for inst in list(self.identity.values()):
            ch = self._changes(inst)
            if not ch:
                continue
            m = _meta(inst)
            key = (m.model, m.pk)
            self._lock(key)
            cur = self._visible_rec(key)
            if cur is None:
                # row vanished (deleted by someone): UPDATE matches 0 rows;
                # SQLAlchemy raises StaleDataError
                from sqlalchemy.orm import exc as orm_exc
                raise orm_exc.StaleDataError(
                    "UPDATE statement on table '%s' expected to update 1 "
                    "row(s); 0 were matched." % m.model.__tablename__)
            new = dict(cur)
            for k, v in ch.items():
                new[k] = _copy_val(v)
            self._onupdate(m.model, new, ch)
            self.overlay[key] = new
            self._snapshot(inst, sync_from=new)
            self.db.log.append((self.name, 'update',
                                '%s %s' % (m.model.__name__, sorted(ch))))

    def _onupdate(self, model, rec, changed):
        for col in model.__table__.columns:
            if col.onupdate is not None and col.key not in changed and \
                    col.onupdate.is_callable:
                rec[col.key] = col.onupdate.arg(None)

    def commit(self):
        self.flush()
        if self.explicit:
            self._hand_off('commit')
        db = self.db
        for (model, pk), rec in self.overlay.items():
            t = db.table(model)
            if rec is None:
                t.pop(pk, None)
            else:
                t[pk] = rec
        self.overlay = {}
        self.locks.clear()
        self.ulocks = []
        db.log.append((self.name, 'commit', ''))

    def rollback(self):
        self.overlay = {}
        self.pending = []
        self.locks.clear()
        self.ulocks = []
        # instances keep their python state (as SQLAlchemy's would be
        # expired); forget them
        self.identity.clear()
        self.db.log.append((self.name, 'rollback', ''))

    def close(self):
        self.overlay = {}
        self.pending = []
        self.locks.clear()
        self.ulocks = []
        self.open = False
        for inst in self.identity.values():
            m = _meta(inst)
            if m is not None:
                m.session = None       # detached
        self.identity = {}
        if self in self.db.sessions:
            self.db.sessions.remove(self)

    # -- instances ----------------------------------------------------------
    # Change tracking is SQLAlchemy's own: attribute sets and Mutable
    # (MutableDict / MutableList) change events put the key into
    # ``state.committed_state``; nested in-place mutations are NOT seen, as
    # in production.
    def _adopt(self, inst, model, rec):
        m = _Meta()
        m.session, m.model, m.pk = self, model, rec['id']
        m.deleted = False
        inst.__dict__['_minidb'] = m
        self.identity[(model, rec['id'])] = inst
        self._load(inst, rec)

    def _load(self, inst, rec):
        """(Re)populate the instance from a record, without history."""
        import sqlalchemy as sa
        from sqlalchemy.orm import attributes
        m = _meta(inst)
        state = sa.inspect(inst)
        for k in columns_of(m.model):
            v = _copy_val(rec.get(k))
            if k in mutable_columns(m.model) and v is not None:
                # through the instrumented attribute: coerces to
                # MutableDict / MutableList and links it to this instance
                setattr(inst, k, v)
            else:
                attributes.set_committed_value(inst, k, v)
        state._commit_all(state.dict)

    def _snapshot(self, inst, sync_from=None):
        import sqlalchemy as sa
        if sync_from is not None:
            # values computed by the "database" (defaults, onupdate)
            from sqlalchemy.orm import attributes
            m = _meta(inst)
            for k in columns_of(m.model):
                if k in mutable_columns(m.model):
                    continue
                v = sync_from.get(k)
                if inst.__dict__.get(k) is not v:
                    attributes.set_committed_value(inst, k, v)
        state = sa.inspect(inst)
        state._commit_all(state.dict)

    def _changes(self, inst):
        import sqlalchemy as sa
        m = _meta(inst)
        if m is None or m.session is not self or m.deleted:
            return {}
        state = sa.inspect(inst)
        if not state.committed_state:
            return {}
        out = {}
        cols = columns_of(m.model)
        for k, old in list(state.committed_state.items()):
            if k not in cols:
                continue
            cur = inst.__dict__.get(k)
            if k in mutable_columns(m.model):
                out[k] = cur
            elif not _leaf_same(old, cur):
                out[k] = cur
        return out

    def materialise(self, model, rec):
        key = (model, rec['id'])
        inst = self.identity.get(key)
        if inst is not None:
            return inst
        import sqlalchemy as sa
        mapper = sa.inspect(model).mapper
        inst = mapper.class_manager.new_instance()
        self._adopt(inst, model, rec)
        for prop in mapper.relationships:
            if prop.lazy == 'joined':
                # eager: usable after the session is gone
                inst.__dict__['_rel_' + prop.key] = getattr(inst, prop.key)
        return inst

    def _reload(self, inst):
        m = _meta(inst)
        if m is None or m.session is not self:
            return
        rec = self._visible_rec((m.model, m.pk))
        if rec is None:
            m.deleted = True
            return
        self._load(inst, rec)

    # -- visibility / locks ---------------------------------------------------
    def _visible_rec(self, key):
        if key in self.overlay:
            return self.overlay[key]
        return self.db.table(key[0]).get(key[1])

    def visible(self, model):
        out = []
        t = self.db.table(model)
        for pk, rec in t.items():
            key = (model, pk)
            if key in self.overlay:
                rec = self.overlay[key]
                if rec is None:
                    continue
            out.append(rec)
        for (mdl, pk), rec in self.overlay.items():
            if mdl is model and rec is not None and pk not in t:
                out.append(rec)
        return out

    def _hand_off(self, op):
        self.db.stmt_count += 1
        if self.db.on_op:
            self.db.on_op(self, op)

    def _lock(self, key):
        if key in self.locks:
            return
        while True:
            holder = None
            for s in self.db.sessions:
                if s is not self and key in s.locks:
                    holder = s
                    break
            if holder is None:
                break
            if self.db.on_block is None:
                raise WouldBlock(holder)
            self.db.on_block(self, holder, key)
        self.locks.add(key)

    def _check_unique(self, model, rec):
        from oslo_db import exception as db_exc
        for cols in unique_constraints(model):
            mine = [rec.get(c) for c in cols]
            if any(v is None for v in mine):
                continue
            # an uncommitted insert with the same key in another session
            # makes this INSERT wait for that transaction
            while True:
                holder = None
                for s in self.db.sessions:
                    if s is self:
                        continue
                    for ul in s.ulocks:
                        if ul[0] is model and ul[1] == cols and bool(sym_and(
                                *[_eq(a, b) for a, b in zip(mine, ul[2])])):
                            holder = (s, ul)
                if holder is None:
                    break
                if self.db.on_block is None:
                    raise WouldBlock(holder[0])
                self.db.on_block(self, holder[0], ('ulock', holder[1]))
            for other in self.visible(model):
                if other.get('id') == rec.get('id') and cols != ('id',):
                    continue
                if _same_key(cols, mine, other):
                    raise db_exc.DBDuplicateEntry(columns=list(cols),
                                                  value=str(mine))
            self.ulocks.append((model, cols, mine))

    def delete_record(self, model, pk):
        key = (model, pk)
        self._lock(key)
        self.overlay[key] = None
        inst = self.identity.get(key)
        if inst is not None:
            _meta(inst).deleted = True
        for child, col, ondelete in referencing(model):
            for rec in self.visible(child):
                if rec.get(col) is not None and _eq(rec.get(col), pk):
                    if ondelete == 'CASCADE':
                        self.delete_record(child, rec['id'])
                    elif ondelete == 'SET NULL':
                        self.write_record(child, rec['id'], {col: None},
                                          touch=False)

    def write_record(self, model, pk, values, touch=True):
        key = (model, pk)
        self._lock(key)
        cur = self._visible_rec(key)
        new = dict(cur)
        for k, v in values.items():
            new[k] = _copy_val(v)
        if touch:
            self._onupdate(model, new, values)
        self.overlay[key] = new
        return new


def _same_key(cols, mine, other):
    theirs = [other.get(c) for c in cols]
    if any(v is None for v in theirs):
        return False
    return bool(sym_and(*[_eq(a, b) for a, b in zip(mine, theirs)]))


def _shallow_same(a, b):
    if a is b:
        return True
    if type(a) is not type(b) and not (
            isinstance(a, dict) and isinstance(b, dict)) and not (
            isinstance(a, list) and isinstance(b, list)):
        return False
    if b is None or a is None:
        return False
    if len(a) != len(b):
        return False
    if isinstance(a, dict):
        if list(a.keys()) != list(b.keys()):
            if set(a.keys()) != set(b.keys()):
                return False
        for k in a:
            if not _leaf_same(a[k], b[k]):
                return False
        return True
    for x, y in zip(a, b):
        if not _leaf_same(x, y):
            return False
    return True


def _leaf_same(x, y):
    if x is y:
        return True
    if isinstance(x, PRIMS) and isinstance(y, PRIMS):
        return type(x) is type(y) and x == y
    return False


# ----------------------------------------------------------------------
# query interception
# ----------------------------------------------------------------------
def _model_of(q):
    for d in q.column_descriptions:
        if d.get('entity') is not None:
            return d['entity']
    raise symx.ProxyMisuse('sqlir: query without entity: %s' % q)


def _select(q):
    ses = q.session
    if not isinstance(ses, Session):
        raise symx.ProxyMisuse('query on a non-minidb session')
    ses.flush()
    model = _model_of(q)
    where = q.whereclause
    out = [r for r in ses.visible(model) if admits(where, r)]
    order = list(getattr(q, '_order_by_clauses', ()) or ())
    if order:
        out = _sort(out, order)
    off = _lim(q, '_offset_clause')
    if off:
        out = out[off:]
    lim = _lim(q, '_limit_clause')
    if lim is not None:
        out = out[:lim]
    return model, out


def _lim(q, attr):
    c = getattr(q, attr, None)
    if c is None:
        return None
    v = getattr(c, 'value', None)
    if v is None and hasattr(c, 'effective_value'):
        v = c.effective_value
    if v is None:
        return None
    return int(v)


def _sort(rows, order):
    from sqlalchemy.sql import elements as el
    from sqlalchemy.sql import operators as ops
    keys = []
    for o in order:
        desc = False
        e = o
        while isinstance(e, el.UnaryExpression):
            if e.modifier is ops.desc_op:
                desc = True
            e = e.element
        keys.append((e, desc))

    def cmp(a, b):
        for e, desc in keys:
            av = Evaluator(a).val(e)
            bv = Evaluator(b).val(e)
            if av is None and bv is None:
                continue
            if av is None:
                return -1
            if bv is None:
                return 1
            if av < bv:
                return 1 if desc else -1
            if bv < av:
                return -1 if desc else 1
        return 0
    return sorted(rows, key=functools.cmp_to_key(cmp))


class _Row(tuple):
    def __new__(cls, vals, names):
        t = tuple.__new__(cls, vals)
        t._names = names
        return t

    def __getattr__(self, k):
        try:
            return self[self._names.index(k)]
        except ValueError:
            raise AttributeError(k)

    def _asdict(self):
        return dict(zip(self._names, self))


def _project(q, model, recs):
    ses = q.session
    descs = q.column_descriptions
    if len(descs) == 1 and descs[0].get('expr') is model:
        return [ses.materialise(model, r) for r in recs]
    out = []
    for r in recs:
        vals = []
        for d in descs:
            e = d['expr']
            if e is model:
                vals.append(ses.materialise(model, r))
            else:
                vals.append(_copy_val(Evaluator(r).val(e)))
        out.append(_Row(vals, [d['name'] for d in descs]))
    return out


def q_all(q):
    q.session._hand_off('select')
    model, recs = _select(q)
    if getattr(q, '_for_update_arg', None) is not None:
        for r in recs:
            q.session._lock((model, r['id']))
        model, recs = _select(q)
    q.session.db.log.append((q.session.name, 'select',
                             '%s -> %d' % (model.__name__, len(recs))))
    return _project(q, model, recs)


def q_first(q):
    r = q_all(q)
    if not r:
        return None
    if len(r) > 1 and not list(getattr(q, '_order_by_clauses', ()) or ()):
        # SELECT ... LIMIT 1 without ORDER BY: the database may return any
        # of the matching rows
        return symx.choice('first_of_%d' % len(r), r)
    return r[0]


def q_one(q):
    from sqlalchemy.orm import exc as orm_exc
    r = q_all(q)
    if not r:
        raise orm_exc.NoResultFound('No row was found when one was required')
    if len(r) > 1:
        raise orm_exc.MultipleResultsFound('Multiple rows were found')
    return r[0]


def q_one_or_none(q):
    r = q_all(q)
    if len(r) > 1:
        from sqlalchemy.orm import exc as orm_exc
        raise orm_exc.MultipleResultsFound('Multiple rows were found')
    return r[0] if r else None


def q_count(q):
    q.session._hand_off('count')
    model, recs = _select(q)
    return len(recs)


def q_delete(q, synchronize_session='auto'):
    ses = q.session
    ses._hand_off('delete')
    model, recs = _select(q)
    n = 0
    for r in recs:
        key = (model, r['id'])
        ses._lock(key)
        cur = ses._visible_rec(key)
        if cur is None or not admits(q.whereclause, cur):
            continue        # changed while waiting for the lock
        ses.delete_record(model, r['id'])
        n += 1
    ses.db.log.append((ses.name, 'delete', '%s x%d' % (model.__name__, n)))
    return n


def q_update(q, values, synchronize_session='auto', **kw):
    ses = q.session
    ses._hand_off('update')
    model, recs = _select(q)
    vals = {}
    for k, v in values.items():
        vals[k if isinstance(k, str) else k.key] = v
    n = 0
    for r in recs:
        key = (model, r['id'])
        ses._lock(key)
        cur = ses._visible_rec(key)
        if cur is None or not admits(q.whereclause, cur):
            continue
        ses.write_record(model, r['id'], vals)
        n += 1
    return n


def _update_returning_pk(query, values, surrogate_key):
    """Replacement of oslo_db.sqlalchemy.update_match.update_returning_pk:
    one atomic UPDATE ... WHERE <criteria> AND <surrogate>=<value>."""
    from oslo_db.sqlalchemy import update_match
    ses = query.session
    ses._hand_off('cas-update')
    ses.flush()
    model = _model_of(query)
    name, value = surrogate_key

    def match(rec):
        return bool(sym_and(admits(query.whereclause, rec),
                            _eq(rec.get(name), value)))
    recs = [r for r in ses.visible(model) if match(r)]
    if not recs:
        ses.db.log.append((ses.name, 'cas-miss', model.__name__))
        raise update_match.NoRowsMatched('Zero rows matched')
    if len(recs) > 1:
        raise update_match.MultiRowsMatched('%d rows matched' % len(recs))
    key = (model, recs[0]['id'])
    ses._lock(key)
    # after waiting for the lock the predicate is re-evaluated on the
    # now-committed image (READ COMMITTED semantics of UPDATE ... WHERE)
    cur = ses._visible_rec(key)
    if cur is None or not match(cur):
        ses.db.log.append((ses.name, 'cas-miss-after-wait', model.__name__))
        raise update_match.NoRowsMatched('Zero rows matched')
    new = ses.write_record(model, key[1], dict(values))
    ses.db.log.append((ses.name, 'cas-hit', model.__name__))
    ses._cas = (model, new)
    return (key[1],)


def _manufacture_persistent_object(session, specimen, values=None,
                                   primary_key=None):
    if session._cas is None:
        raise symx.ProxyMisuse('manufacture_persistent_object without CAS')
    model, rec = session._cas
    session._cas = None
    inst = session.identity.get((model, rec['id']))
    if inst is None:
        return session.materialise(model, rec)
    # merge the updated values into the session's instance without history
    import sqlalchemy as sa
    from sqlalchemy.orm import attributes
    state = sa.inspect(inst)
    for k, v in (values or {}).items():
        if k in rec:
            attributes.set_committed_value(inst, k, _copy_val(rec[k]))
            state.committed_state.pop(k, None)
    return inst


# ----------------------------------------------------------------------
# relationships: lazy descriptors resolving through the instance's session
# ----------------------------------------------------------------------
class _LazyRel(object):
    def __init__(self, prop):
        self.prop = prop
        self.key = prop.key
        self.target = prop.mapper.class_
        self.uselist = prop.uselist
        pairs = list(prop.local_remote_pairs)
        self.local = [l.key for l, r in pairs]
        self.remote = [r.key for l, r in pairs]

    def __get__(self, inst, owner):
        if inst is None:
            return self
        m = _meta(inst)
        if m is None:
            # transient object: whatever was assigned
            return inst.__dict__.get('_rel_' + self.key,
                                     [] if self.uselist else None)
        ses = m.session
        if ses is None and ('_rel_' + self.key) in inst.__dict__:
            return inst.__dict__['_rel_' + self.key]
        if ses is None:
            from sqlalchemy.orm import exc as orm_exc
            raise orm_exc.DetachedInstanceError(
                'Parent instance %r is not bound to a Session; lazy load '
                'operation of attribute %r cannot proceed'
                % (type(inst).__name__, self.key))
        ses.flush()
        out = []
        for rec in ses.visible(self.target):
            ok = True
            for l, r in zip(self.local, self.remote):
                lv = inst.__dict__.get(l)
                rv = rec.get(r)
                if lv is None or rv is None or not _eq(lv, rv):
                    ok = False
                    break
            if ok:
                out.append(ses.materialise(self.target, rec))
        res = out if self.uselist else (out[0] if out else None)
        # SQLAlchemy keeps a loaded relationship on the instance: it stays
        # readable after the session is closed (expire_on_commit=False)
        inst.__dict__['_rel_' + self.key] = res
        return res

    def __set__(self, inst, value):
        if self.uselist:
            raise symx.ProxyMisuse('assignment to collection %s' % self.key)
        for l, r in zip(self.local, self.remote):
            setattr(inst, l, None if value is None else getattr(value, r))
        inst.__dict__['_rel_' + self.key] = value


@contextlib.contextmanager
def installed(db, per_thread_tx_lock=True):
    """Run the real mistral.db.v2.sqlalchemy.api on ``db``."""
    import sqlalchemy as sa
    import sqlalchemy.orm
    from oslo_db.sqlalchemy import update_match
    from mistral.db.sqlalchemy import base as b
    from mistral.db.v2.sqlalchemy import api as sa_api
    from mistral.db.v2 import api as db_api
    sqlalchemy.orm.configure_mappers()
    Q = sqlalchemy.orm.Query
    saved = {}
    for name, fn in (('all', q_all), ('first', q_first), ('one', q_one),
                     ('one_or_none', q_one_or_none), ('count', q_count),
                     ('delete', q_delete), ('update', q_update)):
        saved[name] = getattr(Q, name)
        setattr(Q, name, fn)
    s_urp = update_match.update_returning_pk
    s_mpo = update_match.manufacture_persistent_object
    update_match.update_returning_pk = _update_returning_pk
    update_match.manufacture_persistent_object = _manufacture_persistent_object
    s_get = b._get_session
    b._get_session = lambda: Session(db)
    s_start = b.start_tx

    def start_tx():
        s_start()
        b._get_thread_local_session().explicit = True
    b.start_tx = start_tx
    s_lock = b.tx_lock
    if per_thread_tx_lock:
        b.tx_lock = _PerThreadLock()
    s_impl = db_api.IMPL
    db_api.IMPL = sa_api
    rels = []
    for model in all_models():
        for prop in sa.inspect(model).mapper.relationships:
            if prop.key in model.__dict__:
                rels.append((model, prop.key, model.__dict__[prop.key]))
                type.__setattr__(model, prop.key, _LazyRel(prop))
            else:
                # backref / attribute defined on the class via mapper
                cur = getattr(model, prop.key)
                rels.append((model, prop.key, cur))
                type.__setattr__(model, prop.key, _LazyRel(prop))
    try:
        yield db
    finally:
        for model, key, orig in rels:
            type.__setattr__(model, key, orig)
        for name, fn in saved.items():
            setattr(Q, name, fn)
        update_match.update_returning_pk = s_urp
        update_match.manufacture_persistent_object = s_mpo
        b._get_session = s_get
        b.start_tx = s_start
        b.tx_lock = s_lock
        db_api.IMPL = s_impl
        b._set_thread_local_session(None)


class _PerThreadLock(object):
    """base.tx_lock serialises the transactions of ONE process; actors model
    different processes, so each actor thread gets its own lock."""

    def __init__(self):
        self._tl = threading.local()

    def _l(self):
        l = getattr(self._tl, 'l', None)
        if l is None:
            l = self._tl.l = threading.RLock()
        return l

    def __enter__(self):
        self._l().acquire()
        return self

    def __exit__(self, *a):
        self._l().release()

    def acquire(self, *a, **k):
        return self._l().acquire(*a, **k)

    def release(self):
        return self._l().release()
