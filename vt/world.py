"""World: the REAL mistral engine on minidb with a controllable environment.

Everything that leaves an engine transaction becomes an *event* the harness
delivers explicitly (so delivery order, duplication, loss and action results
are harness - i.e. solver - choices):

  rpc     a call on the engine RPC client (start_task, on_action_complete, ...)
  action  an action handed to an executor; the harness decides its result
  job     a scheduler job (refresh join state, retry, timeout, integrity check)
  post    a post-commit batch of post_tx_queue (only when defer_post_tx)

Stubs (DESIGN 2.4): QueueRPC, FakeScheduler, FakeExecutor, post-commit queue,
deterministic uuid/clock, formatting off.  The database is minidb under the
real mistral.db.v2.sqlalchemy.api.
"""
import contextlib
import datetime
import itertools

from vt import symx, minidb, env


class Event(object):
    _n = itertools.count(1)

    def __init__(self, kind, label, payload):
        self.kind = kind
        self.label = label
        self.payload = payload
        self.seq = None
        self.ctx = None

    def __repr__(self):
        return '<%s %s>' % (self.kind, self.label)


class ConcreteClock(object):
    """Deterministic clock: each reading is one second later."""

    def __init__(self, start=datetime.datetime(2020, 1, 1)):
        self.t = start
        self.readings = []

    def now(self):
        self.t = self.t + datetime.timedelta(seconds=1)
        self.readings.append(self.t)
        return self.t

    def advance(self, seconds):
        self.t = self.t + datetime.timedelta(seconds=seconds)

    @contextlib.contextmanager
    def installed(self):
        import mistral_lib.utils as u
        from oslo_utils import timeutils
        s1, s2 = u.utc_now_sec, timeutils.utcnow
        u.utc_now_sec = self.now
        timeutils.utcnow = lambda with_timezone=False: self.now()
        try:
            yield self
        finally:
            u.utc_now_sec, timeutils.utcnow = s1, s2


class QueueRPC(object):
    METHODS = ('start_workflow', 'start_task', 'start_action',
               'on_action_complete', 'on_action_update', 'pause_workflow',
               'rerun_workflow', 'resume_workflow', 'stop_workflow',
               'process_action_heartbeats')

    def __init__(self, world):
        self.world = world

    def __getattr__(self, name):
        if name not in QueueRPC.METHODS:
            raise AttributeError(name)

        def call(*a, **kw):
            kw.pop('async_', None)
            self.world.post(Event('rpc', name, (name, a, kw)))
        return call


class FakeScheduler(object):
    def __init__(self, world):
        self.world = world

    def schedule(self, job):
        self.world.post(Event('job', '%s key=%s after=%s'
                              % (job.func_name.rsplit('.', 1)[-1], job.key,
                                 job.run_after), job))

    def has_scheduled_jobs(self, **filters):
        if not getattr(self.world, 'job_dedupe', True):
            # two engine processes: each one's check precedes the other's
            # insert (the check and the insert are not atomic)
            return False
        for ev in self.world.events:
            if ev.kind != 'job':
                continue
            if 'key' in filters and filters['key'] != ev.payload.key:
                continue
            if filters.get('processing') is True:
                continue        # pending jobs are not being processed
            return True
        return False

    def start(self):
        pass

    def stop(self, graceful=False):
        pass


class FakeExecutor(object):
    def __init__(self, world):
        self.world = world

    def run_action(self, action, action_ex_id, safe_rerun, exec_ctx,
                   redelivered=False, target=None, async_=True, timeout=None):
        self.world.post(Event('action', '%s %s' % (type(action).__name__,
                                                   action_ex_id),
                              {'action': action, 'id': action_ex_id,
                               'safe_rerun': safe_rerun, 'exec_ctx': exec_ctx,
                               'target': target, 'timeout': timeout}))
        return None


class _FakeThread(object):
    """post_tx_queue runs its batch in a new thread after the commit."""

    world = None

    def __init__(self, target=None, args=(), kwargs=None, **kw):
        self.target = target
        self.args = args
        self.kwargs = kwargs or {}

    def start(self):
        w = _FakeThread.world
        if w is None or not w.defer_post_tx:
            if w is not None:
                w.in_post_commit = getattr(w, 'in_post_commit', 0) + 1
            try:
                self.target(*self.args, **self.kwargs)
            finally:
                if w is not None:
                    w.in_post_commit -= 1
        else:
            w.post(Event('post', 'post-commit batch', self))

    def join(self, timeout=None):
        pass

    def run(self):
        self.target(*self.args, **self.kwargs)


_FIXTURES = {}   # (kind, text) -> [(model name, record)]


def _fixture(kind, text, project_id, is_admin, namespace=''):
    """Definitions are created once by the real services (real parser and
    validation, ~1 s) in a scratch database; every path then starts from a
    copy of the resulting rows."""
    key = (kind, text, project_id, namespace)
    if key in _FIXTURES:
        return _FIXTURES[key]
    from mistral.db.v2.sqlalchemy import models
    from mistral.services import workflows as wf_service
    from mistral.services import workbooks as wb_service
    env.fast_schema_check()
    tmp = minidb.MiniDB(id_prefix='def%d' % len(_FIXTURES))
    with minidb.installed(tmp, per_thread_tx_lock=False), \
            env.auth_ctx(project_id, is_admin):
        if kind == 'wb':
            wb_service.create_workbook_v2(text, namespace=namespace)
        else:
            wf_service.create_workflows(text, namespace=namespace)
    out = []
    for name in ('Workbook', 'WorkflowDefinition', 'ActionDefinition'):
        for rec in tmp.rows(getattr(models, name)):
            out.append((name, dict(rec)))
    _FIXTURES[key] = out
    return out


class World(object):
    def __init__(self, definitions=(), workbooks=(), clock=None,
                 defer_post_tx=False, db=None, expr_stub=None,
                 conf=None, project_id='proj-a', is_admin=False,
                 sym_ids=False, multi_process=False,
                 sym_upstream_order=False):
        self.sym_ids = sym_ids
        self.sym_upstream_order = sym_upstream_order
        self.multi_process = multi_process
        self.project_id = project_id
        self.is_admin = is_admin
        self.definitions = list(definitions)
        self.workbooks = list(workbooks)
        self.clock = clock or ConcreteClock()
        self.defer_post_tx = defer_post_tx
        self.db = db or minidb.MiniDB()
        self.events = []
        self.delivered = []
        self.errors = []          # exceptions escaping engine entry points
        self.swallowed = []       # exceptions logged+swallowed post-commit
        self.expr_stub = expr_stub
        # the integrity check reschedules itself for ever; off unless the
        # obligation is about it (C20.4)
        self.conf = {('engine', 'execution_integrity_check_delay'): -1}
        self.conf.update(conf or {})
        self._stack = None
        self._seq = itertools.count(1)
        self.engine = None
        self.action_log = []      # (action_ex_id, action class, input)

    # -- lifecycle ----------------------------------------------------------
    def __enter__(self):
        from mistral.engine import default_engine, post_tx_queue
        from mistral.scheduler import base as sched_base
        from mistral.rpc import clients as rpc
        from mistral.executors import base as exe
        from mistral.lang import parser as spec_parser
        from mistral.engine import actions as engine_actions
        from mistral.db.v2.sqlalchemy import models
        import mistral_lib.utils as mlu
        fixtures = []
        for text in self.workbooks:
            fixtures += _fixture('wb', text, self.project_id, self.is_admin)
        for text in self.definitions:
            ns = ''
            if isinstance(text, tuple):      # (text, namespace)
                text, ns = text
            fixtures += _fixture('wf', text, self.project_id, self.is_admin,
                                 ns)
        st = contextlib.ExitStack()
        self._stack = st
        st.enter_context(minidb.installed(
            self.db, per_thread_tx_lock=self.multi_process))
        st.enter_context(self.clock.installed())
        st.enter_context(env.auth_ctx(self.project_id, self.is_admin))
        spec_parser.clear_caches()
        st.callback(spec_parser.clear_caches)
        ids = itertools.count(1)
        def gen_id():
            n = next(ids)
            if self.sym_ids:
                # uuids are random: the relative order of task execution
                # ids (ORDER BY id) is a solver choice
                import sys
                f = sys._getframe(1)
                if f.f_code.co_name == '_create_task_execution':
                    return '%s-%05d' % (symx.choice('idp%d' % n,
                                                    ['m', 'c']), n)
            return 'u-%05d' % n
        st.enter_context(env.patched(mlu, 'generate_unicode_uuid', gen_id))
        st.enter_context(env.patched(sched_base, '_SCHEDULER',
                                     FakeScheduler(self)))
        rpcq = QueueRPC(self)
        st.enter_context(env.patched(rpc, 'get_engine_client', lambda: rpcq))
        st.enter_context(env.patched(rpc, '_ENGINE_CLIENT', rpcq))
        fx = FakeExecutor(self)
        st.enter_context(env.patched(exe, 'get_executor', lambda t: fx))
        st.enter_context(env.patched(engine_actions.exe, 'get_executor',
                                     lambda t: fx))
        _FakeThread.world = self

        class T(object):
            Thread = _FakeThread
            RLock = staticmethod(__import__('threading').RLock)
        st.enter_context(env.patched(post_tx_queue, 'threading', T))
        st.callback(lambda: setattr(_FakeThread, 'world', None))
        world = self

        class L(object):
            def exception(self, msg, *a, **k):
                import sys
                world.swallowed.append((msg, sys.exc_info()[1]))

            def __getattr__(self, k):
                return lambda *a, **kw: None
        st.enter_context(env.patched(post_tx_queue, 'LOG', L()))
        if self.conf:
            from oslo_config import cfg
            for (group, name), value in self.conf.items():
                cfg.CONF.set_override(name, value, group=group)
                st.callback(cfg.CONF.clear_override, name, group=group)
        # log of compare-and-swap state updates (id, from, to, hit)
        from mistral.db.v2.sqlalchemy import api as sa_api
        self.cas_log = []

        def wrap(name, kind):
            real = getattr(sa_api, name)

            def f(id, cur_state, state):
                r = real(id=id, cur_state=cur_state, state=state)
                self.cas_log.append((kind, id, cur_state, state,
                                     r is not None))
                return r
            st.enter_context(env.patched(sa_api, name, f))
        wrap('update_workflow_execution_state', 'wf')
        wrap('update_task_execution_state', 'task')
        if self.expr_stub is not None:
            from mistral import expressions
            st.enter_context(env.patched(expressions, 'evaluate',
                                         self.expr_stub))
        if self.sym_upstream_order:
            # the upstream task executions are SELECTed without ORDER BY
            # (sort_keys=[]): the database may list them in any order
            from mistral.workflow import data_flow
            real_up = data_flow.evaluate_upstream_context

            def permuted(upstream_task_execs, additive_context=None):
                if isinstance(upstream_task_execs, list) and \
                        len(upstream_task_execs) > 1:
                    rest = list(upstream_task_execs)
                    out = []
                    while len(rest) > 1:
                        x = symx.choice('upstream_order', rest)
                        rest.remove(x)
                        out.append(x)
                    upstream_task_execs = out + rest
                return real_up(upstream_task_execs, additive_context)
            st.enter_context(env.patched(data_flow,
                                         'evaluate_upstream_context',
                                         permuted))
        self.engine = default_engine.DefaultEngine()
        for name, rec in fixtures:
            self.db.put(getattr(models, name), **minidb._copy_val(rec))
        return self

    def __exit__(self, *a):
        st, self._stack = self._stack, None
        return st.__exit__(*a)

    # -- events -------------------------------------------------------------
    def post(self, ev):
        # the sender's security context travels with the message (RPC
        # context serialisation / ScheduledJob.auth_ctx)
        from mistral import context
        ev.seq = next(self._seq)
        if getattr(ev, 'ctx', None) is None:
            ev.ctx = context.ctx() if context.has_ctx() else None
        self.events.append(ev)

    def pending(self, kind=None):
        return [e for e in self.events if kind is None or e.kind == kind]

    def take(self, ev):
        self.events.remove(ev)
        self.delivered.append(ev)
        return ev

    def call(self, method, *a, **kw):
        """Invoke an engine entry point as an RPC server would; exceptions
        are recorded (the RPC layer returns them to the caller)."""
        try:
            return getattr(self.engine, method)(*a, **kw)
        except Exception as e:  # noqa
            self.errors.append((method, e))
            return None

    def deliver(self, ev, result=None, keep=False):
        """Deliver a pending event to the real code."""
        if not keep:
            self.take(ev)
        from mistral import context
        old = context.ctx() if context.has_ctx() else None
        if getattr(ev, 'ctx', None) is not None:
            context.set_ctx(ev.ctx)
        try:
            return self._deliver(ev, result)
        finally:
            context.set_ctx(old)

    def _deliver(self, ev, result):
        if ev.kind == 'rpc':
            name, a, kw = ev.payload
            return self.call(name, *a, **kw)
        if ev.kind == 'job':
            return self.fire(ev.payload)
        if ev.kind == 'post':
            return ev.payload.run()
        if ev.kind == 'action':
            return self.complete_action(ev, result)
        raise symx.HarnessError('unknown event %r' % ev)

    def fire(self, job):
        from oslo_utils import importutils
        if job.target_factory_func_name:
            factory = importutils.import_class(job.target_factory_func_name)
            func = getattr(factory(), job.func_name)
        else:
            func = importutils.import_class(job.func_name)
        try:
            return func(**dict(job.func_args))
        except Exception as e:  # the scheduler logs and swallows
            self.errors.append(('job:%s' % job.func_name, e))

    def complete_action(self, ev, result):
        """The executor reports ``result`` (a mistral_lib Result) for the
        action; None => run the real action object."""
        from mistral_lib import actions as ml
        p = ev.payload
        self.action_log.append((p['id'], type(p['action']).__name__))
        if result is None:
            try:
                r = p['action'].run(None)
                result = r if isinstance(r, ml.Result) else ml.Result(data=r)
            except Exception as e:
                result = ml.Result(error=str(e))
        if isinstance(result, str) and result == 'async':
            return None
        self.post(Event('rpc', 'on_action_complete',
                        ('on_action_complete', (p['id'], result), {})))

    # -- conveniences --------------------------------------------------------
    def start(self, wf, wf_input=None, wf_namespace='', **params):
        r = self.call('start_workflow', wf, wf_namespace, None,
                      wf_input or {}, '', **params)
        return r.id if r is not None else None

    def run(self, chooser=None, result_of=None, max_events=200,
            stop_when=None):
        """Deliver pending events until none is left.  ``chooser(events)``
        picks the next one (default FIFO); ``result_of(action event)`` gives
        the Result of an action (default: run the real action)."""
        n = 0
        while self.events:
            if stop_when is not None and stop_when(self):
                return n
            n += 1
            if n > max_events:
                raise symx.HarnessError('event bound exceeded: %s'
                                        % self.events[:5])
            ev = chooser(self.events) if chooser else self.events[0]
            if ev is None:
                return n
            res = None
            if ev.kind == 'action' and result_of is not None:
                res = result_of(ev)
                if isinstance(res, str) and res == 'hold':
                    # leave it running (async action / slow executor)
                    self.take(ev)
                    self.held = getattr(self, 'held', []) + [ev]
                    continue
            self.deliver(ev, res)
        return n

    # -- inspection ------------------------------------------------------------
    def rows(self, model_name):
        from mistral.db.v2.sqlalchemy import models
        return self.db.rows(getattr(models, model_name))

    def wf_ex(self, wf_ex_id):
        from mistral.db.v2.sqlalchemy import models
        return self.db.get(models.WorkflowExecution, wf_ex_id)

    def tasks(self, wf_ex_id=None):
        return [t for t in self.rows('TaskExecution')
                if wf_ex_id is None
                or t['workflow_execution_id'] == wf_ex_id]

    def task(self, name, wf_ex_id=None):
        ts = [t for t in self.tasks(wf_ex_id) if t['name'] == name]
        return ts[0] if ts else None

    def actions(self, task_id=None):
        return [a for a in self.rows('ActionExecution')
                if task_id is None or a['task_execution_id'] == task_id]

    def summary(self, wf_ex_id=None):
        out = {}
        for w in self.rows('WorkflowExecution'):
            out[w['id']] = (w['state'], sorted(
                (t['name'], t['state']) for t in self.tasks(w['id'])))
        return out
