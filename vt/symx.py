"""symx - z3 proxy values + exhaustive path DFS over *unmodified* Python code.

Symbolic values are ordinary Python objects wrapping z3 terms.  Operators build
terms; ``__bool__`` asks the engine, which checks both branches for
satisfiability under the current path condition, follows one and records the
other.  ``Engine.explore`` re-executes the harness until the decision tree is
exhausted.  Properties are asserted with ``check(cond, label)``: the negation
is given to the solver under the path condition; ``sat`` yields a model (a
counterexample to be replayed concretely), ``unsat`` means the assertion holds
on this path for all values, ``unknown`` is recorded as inconclusive.

Nothing in the code under analysis is traced or rewritten, so library code
(ipaddress, list.sort, heapq, SQLAlchemy expression construction ...) runs
natively on the proxies.

Unsupported uses of a proxy raise TypeError (loud, never silently concrete),
except for the explicitly supported concretisations (``__index__``,
``__hash__``, ``__str__`` on bounded values) which *fork* over the feasible
values of the term - solver enumerated, still exhaustive.
"""
import datetime
import threading
import time

import z3


class HarnessError(BaseException):
    """The harness (not the code under analysis) is wrong.  BaseException so
    that ``except Exception`` in the code under analysis cannot swallow it."""


class ProxyMisuse(HarnessError):
    """A proxy was used in a way the encoding does not support."""


class PathAbort(BaseException):
    """Unwinds the current path (infeasible / pruned / budget)."""


class Budget(BaseException):
    pass


class DepthLimit(PathAbort):
    """enumerate_prefixes: the path reached the sharding depth."""


_CUR = None  # the engine exploring right now (one per process)


def cur():
    if _CUR is None:
        raise HarnessError("no symx engine active")
    return _CUR


def active():
    return _CUR is not None


class Violation(object):
    def __init__(self, label, model, path_no, info=None):
        self.label = label
        self.model = model      # dict name -> python value
        self.path_no = path_no
        self.info = info or {}

    def to_json(self):
        return {'label': self.label, 'model': self.model,
                'path': self.path_no, 'info': self.info}


class Engine(object):
    def __init__(self, name='', max_paths=200000, timeout_s=None,
                 solver_timeout_ms=20000):
        self.name = name
        self.max_paths = max_paths
        self.deadline = (time.time() + timeout_s) if timeout_s else None
        self.solver_timeout_ms = solver_timeout_ms
        # statistics
        self.paths = 0
        self.queries = 0
        self.solver_s = 0.0
        self.decisions_total = 0
        self.unknowns = 0
        self.violations = []
        self.inconclusive = []
        self.witnesses = {}       # label -> model, for reachability twins
        self.samples = []
        self.exhausted = False
        self.checks_total = 0
        self.checks_unsat = 0
        # per-path state
        self._prefix = []         # list of [choice(bool), flippable(bool)]
        self._pos = 0
        self._solver = None
        self._vars = {}
        self._fresh = {}
        self._notes = []
        self.lock = threading.RLock()
        self.depth_limit = None   # enumerate_prefixes: stop at this depth
        self.frontier = []        # prefixes cut at depth_limit
        self._root = 0            # decisions below this index are fixed

    # ------------------------------------------------------------------
    # variables
    # ------------------------------------------------------------------
    def _name(self, base):
        n = self._fresh.get(base, 0)
        self._fresh[base] = n + 1
        return base if n == 0 else '%s#%d' % (base, n)

    def int(self, name, lo=None, hi=None):
        name = self._name(name)
        v = z3.Int(name)
        self._vars[name] = v
        if lo is not None:
            self._solver.add(v >= lo)
        if hi is not None:
            self._solver.add(v <= hi)
        return SymInt(v, lo, hi)

    def bool(self, name):
        name = self._name(name)
        v = z3.Bool(name)
        self._vars[name] = v
        return SymBool(v)

    def bv(self, name, width):
        name = self._name(name)
        v = z3.BitVec(name, width)
        self._vars[name] = v
        return SymBV(v, width)

    def enum(self, name, universe):
        name = self._name(name)
        v = z3.Int(name)
        self._vars[name] = v
        self._solver.add(v >= 0, v < len(universe))
        return SymEnum(v, tuple(universe))

    def time(self, name, lo=None, hi=None):
        name = self._name(name)
        v = z3.Int(name)
        self._vars[name] = v
        if lo is not None:
            self._solver.add(v >= lo)
        if hi is not None:
            self._solver.add(v <= hi)
        return SymTime(v)

    def choice(self, name, options):
        """A concrete element of ``options`` chosen by the solver (forks:
        one branch per option, no solver query while replaying)."""
        options = list(options)
        if len(options) == 1:
            return options[0]
        i = self.int(name, 0, len(options) - 1)
        for k in range(len(options) - 1):
            if self.branch(i.t == k):
                return options[k]
        return options[-1]

    def assume(self, cond):
        t = _to_bool_term(cond)
        if t is True:
            return
        if t is False:
            raise PathAbort()
        self._solver.add(t)
        if self._pos >= len(self._prefix):
            # Only new territory needs a feasibility check.
            if self._check() != 'sat':
                raise PathAbort()

    def note(self, *a):
        self._notes.append(' '.join(str(x) for x in a))

    # ------------------------------------------------------------------
    # solver plumbing
    # ------------------------------------------------------------------
    def _check(self, *assumptions):
        t0 = time.time()
        r = self._solver.check(*assumptions)
        self.solver_s += time.time() - t0
        self.queries += 1
        r = str(r)
        if r == 'unknown':
            self.unknowns += 1
        return r

    def _model(self):
        m = self._solver.model()
        out = {}
        for name, v in self._vars.items():
            val = m.eval(v, model_completion=True)
            if z3.is_int_value(val):
                out[name] = val.as_long()
            elif z3.is_bv_value(val):
                out[name] = val.as_long()
            elif z3.is_true(val):
                out[name] = True
            elif z3.is_false(val):
                out[name] = False
            else:
                out[name] = str(val)
        return out

    def branch(self, term):
        """Decide a symbolic boolean; forks the exploration."""
        with self.lock:
            if self.deadline and time.time() > self.deadline:
                raise Budget()
            self.decisions_total += 1
            if self._pos < len(self._prefix):
                choice = self._prefix[self._pos][0]
                self._pos += 1
                self._solver.add(term if choice else z3.Not(term))
                return choice
            if self.depth_limit is not None and \
                    self._pos >= self.depth_limit:
                self.frontier.append([c for c, _ in self._prefix])
                raise DepthLimit()
            rt = self._check(term)
            rf = self._check(z3.Not(term))
            if rt == 'unknown' or rf == 'unknown':
                self.inconclusive.append('branch: solver unknown')
            if rt == 'sat' and rf == 'sat':
                self._prefix.append([True, True])
                choice = True
            elif rt == 'sat' or (rt == 'unknown' and rf != 'sat'):
                self._prefix.append([True, False])
                choice = True
            elif rf == 'sat' or rf == 'unknown':
                self._prefix.append([False, False])
                choice = False
            else:
                raise PathAbort()   # path condition itself infeasible
            self._pos += 1
            self._solver.add(term if choice else z3.Not(term))
            return choice

    def check(self, cond, label, info=None):
        """Assert a property on the current path.  Returns True iff it holds
        for all values on this path."""
        with self.lock:
            self.checks_total += 1
            t = _to_bool_term(cond)
            if t is True:
                self.checks_unsat += 1
                return True
            if t is False:
                r = self._check()
                if r == 'sat':
                    self._record_violation(label, info)
                    return False
                if r == 'unknown':
                    self.inconclusive.append('%s: unknown' % label)
                return True
            r = self._check(z3.Not(t))
            if r == 'unsat':
                self.checks_unsat += 1
                self._solver.add(t)
                return True
            if r == 'sat':
                self._record_violation(label, info)
                # keep going under the assumption that it held, to find
                # other, independent violations on this path
                self._solver.add(t)
                if self._check() != 'sat':
                    raise PathAbort()
                return False
            self.inconclusive.append('%s: solver unknown' % label)
            return True

    def _record_violation(self, label, info):
        m = self._model()
        full = dict(info or {})
        full['notes'] = list(self._notes)
        if callable(full.get('render')):
            full['rendered'] = full.pop('render')(m)
        self.violations.append(Violation(label, m, self.paths, full))

    def reach(self, label, cond=True):
        """Reachability witness: records a model the first time ``label`` is
        reachable (with ``cond`` satisfiable)."""
        with self.lock:
            if label in self.witnesses:
                return
            t = _to_bool_term(cond)
            if t is False:
                return
            r = self._check() if t is True else self._check(t)
            if r == 'sat':
                self.witnesses[label] = self._model()

    # ------------------------------------------------------------------
    # exploration
    # ------------------------------------------------------------------
    def explore(self, fn, sample_every=None, root_prefix=None):
        """Run ``fn()`` once per feasible path until the tree is exhausted.
        ``root_prefix``: a list of decisions that is replayed and never
        flipped - the exploration stays in that subtree (sharding)."""
        global _CUR
        if _CUR is not None:
            raise HarnessError("nested symx engines")
        _CUR = self
        if root_prefix is not None:
            self._prefix = [[bool(c), False] for c in root_prefix]
            self._root = len(self._prefix)
        try:
            while True:
                self._solver = z3.Solver()
                self._solver.set('timeout', self.solver_timeout_ms)
                self._vars = {}
                self._fresh = {}
                self._notes = []
                self._pos = 0
                aborted = False
                try:
                    fn()
                except PathAbort:
                    aborted = True
                except Budget:
                    self.inconclusive.append('time budget exhausted after '
                                             '%d paths' % self.paths)
                    return self
                if self._pos < len(self._prefix):
                    raise HarnessError(
                        'non-deterministic harness: replay consumed %d of %d '
                        'decisions' % (self._pos, len(self._prefix)))
                if self._root and len(self._prefix) < self._root:
                    raise HarnessError('path shorter than its shard prefix')
                if not aborted:
                    self.paths += 1
                    if len(self.samples) < 6 and (
                            sample_every is None
                            or self.paths % sample_every == 1):
                        if self._check() == 'sat':
                            self.samples.append(
                                {'path': self.paths,
                                 'decisions': [int(c) for c, _ in
                                               self._prefix][:60],
                                 'model': self._model(),
                                 'notes': self._notes[:12]})
                # backtrack
                while len(self._prefix) > self._root and \
                        not self._prefix[-1][1]:
                    self._prefix.pop()
                if len(self._prefix) <= self._root:
                    self.exhausted = True
                    return self
                last = self._prefix[-1]
                last[0] = not last[0]
                last[1] = False
                if self.paths >= self.max_paths:
                    self.inconclusive.append('path budget (%d) exhausted'
                                             % self.max_paths)
                    return self
        finally:
            _CUR = None

    def stats(self):
        return {'paths': self.paths, 'queries': self.queries,
                'solver_s': round(self.solver_s, 3),
                'decisions': self.decisions_total,
                'checks': self.checks_total,
                'checks_unsat': self.checks_unsat,
                'unknowns': self.unknowns,
                'exhausted': self.exhausted}


# ----------------------------------------------------------------------
# proxies
# ----------------------------------------------------------------------
def _to_bool_term(c):
    if isinstance(c, SymBool):
        return c.t
    if isinstance(c, bool):
        return c
    if z3.is_expr(c):
        return c
    if c is None:
        return False
    if isinstance(c, (SymInt,)):
        return c.t != 0
    return bool(c)


def _it(x):
    """int-like -> z3 term or python int"""
    if isinstance(x, SymInt):
        return x.t
    if isinstance(x, bool):
        return int(x)
    if isinstance(x, int):
        return x
    return None


class SymBool(object):
    __slots__ = ('t',)

    def __deepcopy__(self, memo):
        return self

    def __copy__(self):
        return self

    def __init__(self, t):
        self.t = t

    def __bool__(self):
        t = z3.simplify(self.t)
        if z3.is_true(t):
            return True
        if z3.is_false(t):
            return False
        return cur().branch(t)

    def __and__(self, o):
        return SymBool(z3.And(self.t, _bt(o)))
    __rand__ = __and__

    def __or__(self, o):
        return SymBool(z3.Or(self.t, _bt(o)))
    __ror__ = __or__

    def __invert__(self):
        return SymBool(z3.Not(self.t))

    def __eq__(self, o):
        if isinstance(o, (SymBool, bool)):
            return SymBool(self.t == _bt(o))
        return bool(self) == o

    def __ne__(self, o):
        r = self.__eq__(o)
        return ~r if isinstance(r, SymBool) else (not r)

    def __hash__(self):
        return hash(bool(self))

    def __repr__(self):
        return 'SymBool(%s)' % self.t

    def implies(self, o):
        return SymBool(z3.Implies(self.t, _bt(o)))

    def ite(self, a, b):
        """value-level if-then-else without forking (ints only)"""
        return SymInt(z3.If(self.t, _it(a), _it(b)))


def _bt(o):
    if isinstance(o, SymBool):
        return o.t
    if isinstance(o, bool):
        return z3.BoolVal(o)
    if z3.is_expr(o):
        return o
    raise ProxyMisuse('cannot use %r as symbolic bool' % (o,))


def sym_and(*xs):
    ts = []
    for x in xs:
        if isinstance(x, bool):
            if not x:
                return False
            continue
        ts.append(_bt(x))
    if not ts:
        return True
    return SymBool(z3.And(*ts))


def sym_or(*xs):
    ts = []
    for x in xs:
        if isinstance(x, bool):
            if x:
                return True
            continue
        ts.append(_bt(x))
    if not ts:
        return False
    return SymBool(z3.Or(*ts))


def sym_not(x):
    if isinstance(x, bool):
        return not x
    return SymBool(z3.Not(_bt(x)))


def implies(a, b):
    return sym_or(sym_not(a), b)


def concretize_int(x):
    """Fork over the feasible values of a SymInt; returns a python int."""
    if not isinstance(x, SymInt):
        return x
    t = z3.simplify(x.t)
    if z3.is_int_value(t):
        return t.as_long()
    e = cur()
    for _ in range(100000):
        # deterministic candidate: smallest feasible via incremental probing
        with e.lock:
            r = e._check()
            if r != 'sat':
                raise PathAbort()
            v = e._solver.model().eval(t, model_completion=True).as_long()
        # make candidate deterministic across replays: minimise by bisection
        v = _minimise(e, t, v)
        if e.branch(t == v):
            return v
    raise HarnessError('concretize_int: too many values')


def _minimise(e, t, v):
    # find the least feasible value <= v (few steps for small ranges)
    while True:
        with e.lock:
            r = e._check(t < v)
            if r != 'sat':
                return v
            v = e._solver.model().eval(t, model_completion=True).as_long()


class SymInt(object):
    __slots__ = ('t', 'lo', 'hi')

    def __deepcopy__(self, memo):
        return self

    def __copy__(self):
        return self

    def __init__(self, t, lo=None, hi=None):
        self.t = t
        self.lo = lo
        self.hi = hi

    # arithmetic
    def _bin(self, o, f):
        ot = _it(o)
        if ot is None:
            return NotImplemented
        return SymInt(f(self.t, ot))

    def __add__(self, o):
        return self._bin(o, lambda a, b: a + b)
    __radd__ = __add__

    def __sub__(self, o):
        return self._bin(o, lambda a, b: a - b)

    def __rsub__(self, o):
        return self._bin(o, lambda a, b: b - a)

    def __mul__(self, o):
        return self._bin(o, lambda a, b: a * b)
    __rmul__ = __mul__

    def __neg__(self):
        return SymInt(-self.t)

    def __floordiv__(self, o):
        # python floor division; z3 div is euclidean: equal for positive
        # divisors
        ot = _it(o)
        if ot is None:
            return NotImplemented
        if isinstance(ot, int) and ot > 0:
            return SymInt(self.t / ot)
        raise ProxyMisuse('SymInt // non-positive-constant not supported')

    def __mod__(self, o):
        ot = _it(o)
        if isinstance(ot, int) and ot > 0:
            return SymInt(self.t % ot)
        raise ProxyMisuse('SymInt % non-positive-constant not supported')

    # comparisons
    def _cmp(self, o, f):
        ot = _it(o)
        if ot is None:
            if o is None:
                return NotImplemented
            return NotImplemented
        return SymBool(f(self.t, ot))

    def __lt__(self, o):
        return self._cmp(o, lambda a, b: a < b)

    def __le__(self, o):
        return self._cmp(o, lambda a, b: a <= b)

    def __gt__(self, o):
        return self._cmp(o, lambda a, b: a > b)

    def __ge__(self, o):
        return self._cmp(o, lambda a, b: a >= b)

    def __eq__(self, o):
        ot = _it(o)
        if ot is None:
            return False
        return SymBool(self.t == ot)

    def __ne__(self, o):
        ot = _it(o)
        if ot is None:
            return True
        return SymBool(self.t != ot)

    def __bool__(self):
        return bool(SymBool(self.t != 0))

    def __index__(self):
        return concretize_int(self)

    def __int__(self):
        return concretize_int(self)

    def __hash__(self):
        return hash(concretize_int(self))

    def __repr__(self):
        return 'SymInt(%s)' % self.t

    def __str__(self):
        return str(concretize_int(self))

    def __format__(self, spec):
        return format(concretize_int(self), spec)

    def __abs__(self):
        return SymInt(z3.If(self.t >= 0, self.t, -self.t))


def sym_max(a, b):
    return SymInt(z3.If(_it(a) >= _it(b), _it(a), _it(b)))


def sym_min(a, b):
    return SymInt(z3.If(_it(a) <= _it(b), _it(a), _it(b)))


class SymEnum(object):
    """A value from a finite universe of python objects (usually strings),
    compared lazily: ``x == 'RUNNING'`` is a SymBool."""
    __slots__ = ('t', 'universe')

    def __deepcopy__(self, memo):
        return self

    def __copy__(self):
        return self

    def __init__(self, t, universe):
        self.t = t
        self.universe = universe

    def __eq__(self, o):
        if isinstance(o, SymEnum):
            if o.universe == self.universe:
                return SymBool(self.t == o.t)
            return self.concrete() == o.concrete()
        try:
            i = self.universe.index(o)
        except ValueError:
            return False
        return SymBool(self.t == i)

    def __ne__(self, o):
        r = self.__eq__(o)
        return ~r if isinstance(r, SymBool) else (not r)

    def concrete(self):
        return self.universe[concretize_int(SymInt(self.t))]

    def __bool__(self):
        falsy = [i for i, u in enumerate(self.universe) if not u]
        if not falsy:
            return True
        return bool(SymBool(z3.And(*[self.t != i for i in falsy])))

    def __hash__(self):
        return hash(self.concrete())

    def __str__(self):
        return str(self.concrete())

    def __format__(self, spec):
        return format(self.concrete(), spec)

    def __repr__(self):
        return 'SymEnum(%s)' % self.t

    def is_in(self, values):
        return sym_or(*[self == v for v in values])


class SymBV(object):
    """Fixed-width unsigned integer (addresses).  Supports what
    ``ipaddress`` does with ``_ip``: ``&``, ``==``, comparisons, ``>>``."""
    __slots__ = ('t', 'w')

    def __deepcopy__(self, memo):
        return self

    def __copy__(self):
        return self

    def __init__(self, t, w):
        self.t = t
        self.w = w

    def _o(self, o):
        if isinstance(o, SymBV):
            if o.w != self.w:
                raise ProxyMisuse('SymBV width mismatch %d vs %d'
                                % (self.w, o.w))
            return o.t
        if isinstance(o, int) and not isinstance(o, bool):
            if o < 0 or o >= (1 << self.w):
                raise ProxyMisuse('constant %d does not fit %d bits'
                                % (o, self.w))
            return z3.BitVecVal(o, self.w)
        return None

    def __and__(self, o):
        ot = self._o(o)
        if ot is None:
            return NotImplemented
        return SymBV(self.t & ot, self.w)
    __rand__ = __and__

    def __or__(self, o):
        ot = self._o(o)
        if ot is None:
            return NotImplemented
        return SymBV(self.t | ot, self.w)
    __ror__ = __or__

    def __xor__(self, o):
        ot = self._o(o)
        if ot is None:
            return NotImplemented
        return SymBV(self.t ^ ot, self.w)

    def __rshift__(self, n):
        if not isinstance(n, int):
            return NotImplemented
        return SymBV(z3.LShR(self.t, z3.BitVecVal(n, self.w)), self.w)

    def __lshift__(self, n):
        raise ProxyMisuse('SymBV << would change width')

    def __eq__(self, o):
        ot = self._o(o)
        if ot is None:
            if isinstance(o, int):
                return False
            return False
        return SymBool(self.t == ot)

    def __ne__(self, o):
        r = self.__eq__(o)
        return ~r if isinstance(r, SymBool) else (not r)

    def __lt__(self, o):
        return SymBool(z3.ULT(self.t, self._o(o)))

    def __le__(self, o):
        return SymBool(z3.ULE(self.t, self._o(o)))

    def __gt__(self, o):
        return SymBool(z3.UGT(self.t, self._o(o)))

    def __ge__(self, o):
        return SymBool(z3.UGE(self.t, self._o(o)))

    def __hash__(self):
        raise ProxyMisuse('SymBV is not hashable')

    def __index__(self):
        raise ProxyMisuse('SymBV cannot be used as an index')

    def __repr__(self):
        return 'SymBV%d(%s)' % (self.w, self.t)


class SymDelta(object):
    """A symbolic ``timedelta`` in whole seconds."""
    __slots__ = ('t',)

    def __deepcopy__(self, memo):
        return self

    def __copy__(self):
        return self

    def __init__(self, t):
        self.t = t

    def total_seconds(self):
        return SymInt(self.t)

    def __lt__(self, o):
        return SymBool(self.t < _dt(o))

    def __le__(self, o):
        return SymBool(self.t <= _dt(o))

    def __gt__(self, o):
        return SymBool(self.t > _dt(o))

    def __ge__(self, o):
        return SymBool(self.t >= _dt(o))

    def __eq__(self, o):
        d = _dt(o)
        return False if d is None else SymBool(self.t == d)

    def __neg__(self):
        return SymDelta(-self.t)

    def __add__(self, o):
        if isinstance(o, SymTime):
            return SymTime(o.t + self.t)
        return SymDelta(self.t + _dt(o))
    __radd__ = __add__

    def __sub__(self, o):
        return SymDelta(self.t - _dt(o))

    __hash__ = None


def _dt(o):
    if isinstance(o, SymDelta):
        return o.t
    if isinstance(o, datetime.timedelta):
        s = o.total_seconds()
        if s != int(s):
            raise ProxyMisuse('sub-second timedelta with symbolic time')
        return int(s)
    return None


EPOCH = datetime.datetime(2000, 1, 1)


def _tt(o):
    if isinstance(o, SymTime):
        return o.t
    if isinstance(o, datetime.datetime):
        d = (o.replace(tzinfo=None) - EPOCH).total_seconds()
        return int(d)
    return None


class SymTime(object):
    """A symbolic clock reading: integer seconds since 2000-01-01."""
    __slots__ = ('t',)

    def __deepcopy__(self, memo):
        return self

    def __copy__(self):
        return self

    def __init__(self, t):
        self.t = t

    def __add__(self, o):
        d = _dt(o)
        if d is None:
            return NotImplemented
        return SymTime(self.t + d)
    __radd__ = __add__

    def __sub__(self, o):
        d = _dt(o)
        if d is not None:
            return SymTime(self.t - d)
        t = _tt(o)
        if t is not None:
            return SymDelta(self.t - t)
        return NotImplemented

    def __rsub__(self, o):
        t = _tt(o)
        if t is None:
            return NotImplemented
        return SymDelta(t - self.t)

    def _cmp(self, o, f):
        t = _tt(o)
        if t is None:
            return NotImplemented
        return SymBool(f(self.t, t))

    def __lt__(self, o):
        return self._cmp(o, lambda a, b: a < b)

    def __le__(self, o):
        return self._cmp(o, lambda a, b: a <= b)

    def __gt__(self, o):
        return self._cmp(o, lambda a, b: a > b)

    def __ge__(self, o):
        return self._cmp(o, lambda a, b: a >= b)

    def __eq__(self, o):
        t = _tt(o)
        if t is None:
            return False
        return SymBool(self.t == t)

    def __ne__(self, o):
        r = self.__eq__(o)
        return ~r if isinstance(r, SymBool) else (not r)

    def replace(self, **kw):
        # the code truncates microseconds / tzinfo; readings are whole seconds
        if set(kw) - {'microsecond', 'tzinfo'}:
            raise ProxyMisuse('SymTime.replace(%s)' % kw)
        return self

    def __hash__(self):
        raise ProxyMisuse('SymTime is not hashable')

    def __repr__(self):
        return 'SymTime(%s)' % self.t

    def concrete(self, model_value):
        return EPOCH + datetime.timedelta(seconds=model_value)


def to_datetime(seconds):
    return EPOCH + datetime.timedelta(seconds=seconds)


# ----------------------------------------------------------------------
# convenience
# ----------------------------------------------------------------------
def fresh_int(name, lo=None, hi=None):
    return cur().int(name, lo, hi)


def fresh_bool(name):
    return cur().bool(name)


def fresh_enum(name, universe):
    return cur().enum(name, universe)


def fresh_time(name, lo=None, hi=None):
    return cur().time(name, lo, hi)


def fresh_bv(name, width):
    return cur().bv(name, width)


def choice(name, options):
    return cur().choice(name, options)


def assume(c):
    cur().assume(c)


def check(c, label, info=None):
    return cur().check(c, label, info)


def reach(label, cond=True):
    cur().reach(label, cond)


def note(*a):
    cur().note(*a)


# ----------------------------------------------------------------------
# concrete replay of a model through the same harness
# ----------------------------------------------------------------------
class ConcreteEngine(object):
    """Same interface as Engine, but every fresh value is the concrete value
    the solver's model gave it: the harness, the stubs and the real kernel run
    on ordinary python values.  Used to confirm a counterexample before it is
    reported."""

    def __init__(self, model):
        self.model = dict(model)
        self._fresh = {}
        self.failed = []       # labels of checks that evaluated false
        self.witnesses = {}
        self._notes = []
        self.lock = threading.RLock()

    _name = Engine._name

    def _get(self, base, default):
        name = self._name(base)
        return self.model.get(name, default)

    def int(self, name, lo=None, hi=None):
        v = self._get(name, lo if lo is not None else 0)
        return int(v)

    def bool(self, name):
        return bool(self._get(name, False))

    def bv(self, name, width):
        return int(self._get(name, 0))

    def enum(self, name, universe):
        return universe[int(self._get(name, 0))]

    def time(self, name, lo=None, hi=None):
        return to_datetime(int(self._get(name, lo if lo is not None else 0)))

    def choice(self, name, options):
        options = list(options)
        if len(options) == 1:
            return options[0]
        return options[self.int(name, 0, len(options) - 1)]

    def assume(self, cond):
        if not cond:
            raise PathAbort()

    def note(self, *a):
        self._notes.append(' '.join(str(x) for x in a))

    def check(self, cond, label, info=None):
        if not cond:
            self.failed.append(label)
            return False
        return True

    def reach(self, label, cond=True):
        if cond:
            self.witnesses[label] = True

    def branch(self, term):
        raise HarnessError('symbolic value in concrete replay')

    def run(self, fn):
        global _CUR
        if _CUR is not None:
            raise HarnessError('nested engines')
        _CUR = self
        try:
            try:
                fn()
            except PathAbort:
                pass
        finally:
            _CUR = None
        return self


def seconds(x):
    """timedelta of x seconds; symbolic if x is."""
    if isinstance(x, SymInt):
        return SymDelta(x.t)
    return datetime.timedelta(seconds=x)


def concrete(x):
    """python value of a (possibly symbolic) enum / int (forks)"""
    if isinstance(x, SymEnum):
        return x.concrete()
    if isinstance(x, SymInt):
        return concretize_int(x)
    return x
