"""Reference semantics of a direct workflow run (independent of the engine).

Given the parsed spec, the outcome of every task's action and the value of
every guard, computes the tasks that run, their final states and the final
workflow state, as the workflow language defines them:

* start tasks are the tasks without inbound transitions;
* a completed task selects on-error (ERROR) / on-success (SUCCESS) entries
  plus on-complete entries whose guard holds, in that order;
* a non-join target starts; a join target is created (WAITING) and starts
  once enough inbound tasks completed *and routed to it* ('all', N, 'one');
  it fails once that can no longer happen;
* an ERROR is handled iff an on-error entry was selected;
* the run ends CANCELLED if a task was cancelled, SUCCESS if every error is
  handled, ERROR otherwise; engine commands fail / succeed end it at once.

Restricted to shapes where every task has at most one execution (the
catalogue guarantees it); the result is then independent of the completion
order, which is exactly what C02 claims for the engine.
"""

ENGINE_CMDS = ('fail', 'succeed', 'pause', 'noop')


def reference(spec, outcome, guard, ignore_pause=False):
    tasks = {t.get_name(): t for t in spec.get_tasks()}

    def inbound(n):
        return [t.get_name() for t in spec.find_inbound_task_specs(tasks[n])]

    started = [t.get_name() for t in spec.find_start_tasks()]
    state = {}                 # name -> final state
    routed = {}                # name -> set of task names it routed to
    handled = {}
    created_joins = []         # joins that have a (WAITING) execution
    forced = None              # fail / succeed command
    todo = list(started)
    guard_used = []

    def select(name, st):
        res = []
        clauses = []
        if st == 'ERROR':
            clauses.append(('on-error', spec.get_on_error_clause(name)))
        if st == 'SKIPPED':
            sk = [(t, c, p) for t, c, p in spec.get_on_skip_clause(name)
                  if not c or guard(name, c)]
            if sk:
                return [(t, 'on-skip') for t, c, p in sk]
            clauses.append(('on-success', spec.get_on_success_clause(name)))
        if st == 'SUCCESS':
            clauses.append(('on-success', spec.get_on_success_clause(name)))
        if st in ('SUCCESS', 'ERROR'):
            clauses.append(('on-complete', spec.get_on_complete_clause(name)))
        for ev, cl in clauses:
            for tgt, cond, params in cl:
                if not cond or guard(name, cond):
                    res.append((tgt, ev))
        return res

    def join_state(j):
        induced = []
        # can a not yet started task still start?  (least fixpoint)
        can = {}

        def can_start(n, seen):
            if n in state or n in started or n in created_joins:
                return False      # handled through its own state
            if n in seen:
                return False
            seen = seen | {n}
            ins = inbound(n)
            if not ins:
                return True
            for p in ins:
                if p in state:
                    if n in routed.get(p, ()):
                        return True
                elif p in started or p in created_joins:
                    return True     # still running / waiting
                elif can_start(p, seen):
                    return True
            return False
        for p in inbound(j):
            if p in state:
                induced.append('RUNNING' if j in routed.get(p, ())
                               else 'ERROR')
            elif p in started or p in created_joins:
                induced.append('WAITING')
            else:
                induced.append('WAITING' if can_start(p, frozenset())
                               else 'ERROR')
        join = tasks[j].get_join()
        total, run, err = (len(induced), induced.count('RUNNING'),
                           induced.count('ERROR'))
        if join == 'all':
            if run == total:
                return 'RUNNING'
            return 'ERROR' if err else 'WAITING'
        need = 1 if join == 'one' else int(join)
        if run >= need:
            return 'RUNNING'
        return 'ERROR' if err > total - need else 'WAITING'

    def complete(name, st):
        nonlocal forced
        state[name] = st
        sel = select(name, st)
        routed[name] = set()
        handled[name] = any(ev == 'on-error' for _, ev in sel)
        for tgt, ev in sel:
            if tgt in ENGINE_CMDS:
                if tgt == 'fail':
                    forced = forced or 'ERROR'
                    break
                if tgt == 'succeed':
                    forced = forced or 'SUCCESS'
                    break
                if tgt == 'pause' and not ignore_pause:
                    forced = forced or 'PAUSED'
                continue
            routed[name].add(tgt)
            if tasks[tgt].get_join():
                if tgt not in created_joins and tgt not in state:
                    created_joins.append(tgt)
            else:
                if tgt in state or tgt in started:
                    raise ValueError('shape runs task %s twice' % tgt)
                started.append(tgt)
                todo.append(tgt)

    progress = True
    while progress and forced is None:
        progress = False
        while todo and forced is None:
            n = todo.pop(0)
            complete(n, outcome(n))
            progress = True
        for j in list(created_joins):
            if j in state or forced is not None:
                continue
            ls = join_state(j)
            if ls == 'RUNNING':
                created_joins.remove(j)
                started.append(j)
                complete(j, outcome(j))
                progress = True
            elif ls == 'ERROR':
                created_joins.remove(j)
                complete(j, 'ERROR')
                progress = True
    if forced in ('ERROR', 'SUCCESS'):
        wf = forced
    elif forced == 'PAUSED':
        wf = 'PAUSED'
    elif created_joins and any(j not in state for j in created_joins):
        wf = 'STUCK'
    elif any(s == 'CANCELLED' for s in state.values()):
        wf = 'CANCELLED'
    elif all(handled.get(n, False) for n, s in state.items()
             if s == 'ERROR'):
        wf = 'SUCCESS'
    else:
        wf = 'ERROR'
    return wf, state, handled
