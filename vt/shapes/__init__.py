"""Workflow shape catalogue (YAML texts parsed by the real parser)."""

FORK_JOIN = """
version: '2.0'
wf:
  tasks:
    a:
      action: std.noop
      on-success: [b, c]
    b:
      action: std.noop
      on-success: j
    c:
      action: std.noop
      on-success: j
    j:
      join: all
      action: std.noop
"""

JOIN_2_OF_3_MIXED = """
version: '2.0'
wf:
  tasks:
    s:
      action: std.noop
      on-success: [a, b, c]
    a:
      action: std.noop
      on-success: j
    b:
      action: std.noop
      on-error: j
    c:
      action: std.noop
      on-complete: j
    j:
      join: 2
      action: std.noop
"""

JOIN_ONE = """
version: '2.0'
wf:
  tasks:
    a:
      action: std.noop
      on-success: j
    b:
      action: std.noop
      on-success: j
    j:
      join: one
      action: std.noop
"""

NESTED_JOINS = """
version: '2.0'
wf:
  tasks:
    a:
      action: std.noop
      on-success: j1
    b:
      action: std.noop
      on-success: j1
    c:
      action: std.noop
      on-success: j2
    j1:
      join: all
      action: std.noop
      on-success: j2
    j2:
      join: all
      action: std.noop
"""

DEEP_CHAIN = """
version: '2.0'
wf:
  tasks:
    t1:
      action: std.noop
      on-success: t2
    t2:
      action: std.noop
      on-success: t3
    t3:
      action: std.noop
      on-success: t4
    t4:
      action: std.noop
      on-success: t5
    t5:
      action: std.noop
      on-success: t6
    t6:
      action: std.noop
      on-success: t7
    t7:
      action: std.noop
      on-success: j
    x:
      action: std.noop
      on-success: j
    j:
      join: all
      action: std.noop
"""

CONDITIONAL = """
version: '2.0'
wf:
  tasks:
    s:
      action: std.noop
      on-success:
        - a: <% $.gx %>
        - b
    a:
      action: std.noop
      on-success: j
    b:
      action: std.noop
      on-success: j
    j:
      join: all
      action: std.noop
"""

# a cycle upstream of a join that may never be entered (F1)
CYCLE_UPSTREAM = """
version: '2.0'
wf:
  tasks:
    s:
      action: std.noop
      on-success:
        - a: <% $.gx %>
        - c
    a:
      action: std.noop
      on-success: b
    b:
      action: std.noop
      on-success:
        - a: <% $.gy %>
        - j
    c:
      action: std.noop
      on-success: j
    j:
      join: all
      action: std.noop
"""

ERROR_ROUTES = """
version: '2.0'
wf:
  tasks:
    a:
      action: std.noop
      on-success: b
      on-error: c
      on-complete: d
    b:
      action: std.noop
    c:
      action: std.noop
    d:
      action: std.noop
"""

# partial join with an inbound branch that can be cut off two hops upstream
JOIN_PARTIAL_DEEP = """
version: '2.0'
wf:
  tasks:
    s:
      action: std.noop
      on-success:
        - a
        - b
        - x: <% $.gx %>
    a:
      action: std.noop
      on-success: j
    b:
      action: std.noop
      on-success: j
    x:
      action: std.noop
      on-success: y
    y:
      action: std.noop
      on-success: j
    j:
      join: 2
      action: std.noop
      on-error: cleanup
    cleanup:
      action: std.noop
"""

JOIN_SHAPES = {
    'join_partial_deep': (JOIN_PARTIAL_DEEP, ['j']),
    'fork_join': (FORK_JOIN, ['j']),
    'join_2_of_3_mixed': (JOIN_2_OF_3_MIXED, ['j']),
    'join_one': (JOIN_ONE, ['j']),
    'nested_joins': (NESTED_JOINS, ['j1', 'j2']),
    'deep_chain': (DEEP_CHAIN, ['j']),
    'conditional': (CONDITIONAL, ['j']),
    'cycle_upstream': (CYCLE_UPSTREAM, ['j']),
}


FAIL_CMD = """
version: '2.0'
wf:
  tasks:
    a:
      action: std.noop
      on-success: b
      on-error: [fail]
    b:
      action: std.noop
      on-error: c
    c:
      action: std.noop
      on-success: [succeed]
      on-error: d
    d:
      action: std.noop
"""

TASK_DEFAULTS = """
version: '2.0'
wf:
  task-defaults:
    on-error: cleanup
  tasks:
    a:
      action: std.noop
      on-success: [b, c]
    b:
      action: std.noop
    c:
      action: std.noop
      on-error: d
    d:
      action: std.noop
    cleanup:
      action: std.noop
"""

JOIN_FED_BY_ERROR = """
version: '2.0'
wf:
  tasks:
    a:
      action: std.noop
      on-success: [b, c]
    b:
      action: std.noop
      on-error: j
    c:
      action: std.noop
      on-complete: j
    j:
      join: all
      action: std.noop
      on-error: r
    r:
      action: std.noop
"""

RUN_SHAPES = {
    'join_partial_deep': JOIN_PARTIAL_DEEP,
    'fork_join': FORK_JOIN,
    'join_2_of_3_mixed': JOIN_2_OF_3_MIXED,
    'join_one': JOIN_ONE,
    'nested_joins': NESTED_JOINS,
    'conditional': CONDITIONAL,
    'cycle_upstream': CYCLE_UPSTREAM,
    'error_routes': ERROR_ROUTES,
    'fail_cmd': FAIL_CMD,
    'join_fed_by_error': JOIN_FED_BY_ERROR,
}


# data flow: root publishes x and z, branch b republishes x, branch c
# publishes y (different variables in the parallel branches: no conflict)
DATA_FLOW = """
version: '2.0'
wf:
  input:
    - inp: I
  output:
    x: <% $.x %>
    y: <% $.get(y, none) %>
    z: <% $.z %>
    seen: <% $.get(seen_x, none) %>
  tasks:
    a:
      action: std.noop
      publish:
        x: from_a
        z:
          k1: a1
          k2: a2
        cfg:
          db:
            host: h0
            port: p0
      on-success: [b, c]
    b:
      action: std.noop
      publish:
        x: from_b
        z:
          k1: b1
        cfg:
          db:
            host: h1
      on-success: j
    c:
      action: std.noop
      publish:
        y: from_c
      publish-on-error:
        y: c_failed
      on-complete: j
    j:
      join: all
      action: std.noop
      publish:
        seen_x: <% $.x %>
        seen_y: <% $.y %>
        seen_z: <% $.z %>
        seen_cfg: <% $.cfg %>
        seen_inp: <% $.inp %>
"""

DATA_FLOW_3 = """
version: '2.0'
wf:
  output:
    p: <% $.p %>
    q: <% $.q %>
    r: <% $.r %>
  tasks:
    a:
      action: std.noop
      publish:
        p: p_a
        q: q_a
        r: r_a
      on-success: [b, c, d]
    b:
      action: std.noop
      publish:
        p: p_b
      on-success: j
    c:
      action: std.noop
      publish:
        q: q_c
      on-success: j
    d:
      action: std.noop
      on-success: j
    j:
      join: all
      action: std.noop
      publish:
        got: <% [$.p, $.q, $.r] %>
"""

# a variable first published INSIDE a branch (the other start task never
# had it), re-published further down the same chain; a 3-way join gets the
# old copy, the new copy and a context without it
DATA_FLOW_CHAIN = """
version: '2.0'
wf:
  output:
    v: <% $.get(v, none) %>
  tasks:
    a:
      action: std.noop
      publish:
        v: from_a
      on-success: [a2, j]
    a2:
      action: std.noop
      publish:
        v: from_a2
      on-success: j
    c:
      action: std.noop
      publish:
        w: from_c
      on-success: j
    j:
      join: all
      action: std.noop
      publish:
        got: <% [$.v, $.w] %>
"""

# a join after a join: v is born in branch a, passes j1, is re-published by
# d; e carries the old copy to j2
DATA_FLOW_JJ = """
version: '2.0'
wf:
  output:
    v: <% $.get(v, none) %>
  tasks:
    a:
      action: std.noop
      publish:
        v: from_a
      on-success: [j1, e]
    b:
      action: std.noop
      on-success: j1
    j1:
      join: all
      action: std.noop
      on-success: d
    d:
      action: std.noop
      publish:
        v: from_d
      on-success: j
    e:
      action: std.noop
      on-success: j
    j:
      join: all
      action: std.noop
      publish:
        got: <% $.v %>
"""

DATA_SHAPES = {'data_flow': DATA_FLOW, 'data_flow_3': DATA_FLOW_3,
               'data_flow_chain': DATA_FLOW_CHAIN,
               'data_flow_jj': DATA_FLOW_JJ}


PAUSE_CMD_JOIN = """
version: '2.0'
wf:
  tasks:
    a:
      action: std.noop
      on-success: [pause, j]
    b:
      action: std.noop
      on-success: j
    j:
      join: all
      action: std.noop
"""

CHAIN = """
version: '2.0'
wf:
  tasks:
    a:
      action: std.noop
      on-success: b
    b:
      action: std.noop
      on-success: c
      on-error: d
    c:
      action: std.noop
    d:
      action: std.noop
"""

SKIP_ROUTES = """
version: '2.0'
wf:
  output:
    v: <% $.get(v, none) %>
  tasks:
    a:
      action: std.noop
      publish:
        v: published
      publish-on-skip:
        v: skipped
      on-success: b
      on-skip: c
      on-complete: d
    b:
      action: std.noop
    c:
      action: std.noop
    d:
      action: std.noop
"""

SKIP_NO_ONSKIP = """
version: '2.0'
wf:
  tasks:
    a:
      action: std.noop
      on-success: b
      on-complete: d
    b:
      action: std.noop
    d:
      action: std.noop
"""

SUBWF = """
version: '2.0'
parent:
  tasks:
    p1:
      workflow: child
      on-success: p2
      on-error: p3
    p2:
      action: std.noop
    p3:
      action: std.noop
child:
  output:
    res: <% $.get(r, none) %>
  tasks:
    c1:
      action: std.noop
      publish:
        r: from_child
      on-success: c2
    c2:
      action: std.noop
"""


CHAIN3 = """
version: '2.0'
wf:
  tasks:
    a:
      action: std.noop
      on-success: b
    b:
      action: std.noop
      on-success: c
    c:
      action: std.noop
"""

SUBWF_PLAIN = """
version: '2.0'
parent:
  tasks:
    p1:
      workflow: child
      on-success: p2
    p2:
      action: std.noop
child:
  tasks:
    c1:
      action: std.noop
      on-success: c2
    c2:
      action: std.noop
"""
