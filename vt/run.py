"""Runner: /verif/check <PROPERTY> [--tier quick|thorough] [--only OBL]
                         [--replay FILE]

One subprocess per obligation (hard timeout), 16 at a time; then the verdicts,
known-finding matching, evidence file, exit code.
  exit 0  no unlisted reproduced counterexample
  exit 1  + 'VIOLATION property=<id> replay=<path>' per unlisted violation
  exit 2  harness error (vacuous twin, non-reproducing model, crash)
"""
import argparse
import concurrent.futures
import fnmatch
import hashlib
import importlib
import json
import os
import subprocess
import sys
import time

from vt import kit

VERIF = kit.VERIF
LEVEL = 'model_checking'


def load(prop):
    importlib.import_module('vt.harness.%s' % prop)
    return [o for o in kit.REGISTRY if o.split('.')[0] == prop]


def worker(prop, oid, tier, seed, out):
    load(prop)
    r = kit.run_obligation(oid, tier, seed)
    with open(out, 'w') as f:
        f.write(kit.dumps(r))


def spawn(prop, oid, tier, seed, workdir):
    out = os.path.join(workdir, '%s.json' % oid)
    if os.path.exists(out):
        os.unlink(out)
    ob = kit.REGISTRY[oid]
    tmo = ob.timeout[0 if tier == 'quick' else 1]
    cmd = [sys.executable, '-m', 'vt.run', '--worker', prop, oid, tier,
           str(seed), out]
    t0 = time.time()
    env = dict(os.environ)
    env['PYTHONPATH'] = VERIF + os.pathsep + env.get('PYTHONPATH', '')
    env['PYTHONDONTWRITEBYTECODE'] = '1'
    env.setdefault('MISTRAL_VERIF', '1')
    try:
        p = subprocess.run(cmd, cwd=VERIF, env=env, timeout=tmo + 30,
                           stdout=subprocess.PIPE, stderr=subprocess.STDOUT)
        log = p.stdout.decode('utf8', 'replace')[-3000:]
    except subprocess.TimeoutExpired as e:
        log = 'hard timeout after %ds' % (tmo + 30)
        return {'id': oid, 'verdict': 'inconclusive', 'engine': ob.engine,
                'inconclusive': [log], 'wall_s': round(time.time() - t0, 1),
                'functions': [], 'violations': [], 'paths': 0, 'queries': 0,
                'solver_s': 0, 'samples': [], 'cases': 0}
    if not os.path.exists(out):
        return {'id': oid, 'verdict': 'error', 'engine': ob.engine,
                'error': 'worker produced no result:\n' + log,
                'wall_s': round(time.time() - t0, 1), 'functions': [],
                'violations': [], 'paths': 0, 'queries': 0, 'solver_s': 0,
                'samples': [], 'cases': 0}
    with open(out) as f:
        return json.load(f)


def load_known():
    p = os.path.join(VERIF, 'known_findings.json')
    if not os.path.exists(p):
        return []
    with open(p) as f:
        return json.load(f).get('findings', [])


def main(argv=None):
    ap = argparse.ArgumentParser()
    ap.add_argument('prop')
    ap.add_argument('--tier', default=os.environ.get('VERIF_TIER', 'quick'))
    ap.add_argument('--only', action='append')
    ap.add_argument('--replay')
    ap.add_argument('--jobs', type=int, default=int(
        os.environ.get('VERIF_JOBS', '16')))
    a = ap.parse_args(argv)
    seed = int(os.environ.get('VERIF_SEED', '0') or 0)
    prop = a.prop
    tier = a.tier if a.tier in ('quick', 'thorough') else 'quick'

    if a.replay:
        return do_replay(prop, a.replay)

    t0 = time.time()
    oids = load(prop)
    if a.only:
        oids = [o for o in oids if o in a.only]
    if not oids:
        print('no obligations for', prop)
        return 2
    workdir = os.path.join(VERIF, 'work', prop)
    os.makedirs(workdir, exist_ok=True)
    os.makedirs(os.path.join(VERIF, 'replays'), exist_ok=True)
    os.makedirs(os.path.join(VERIF, 'evidence'), exist_ok=True)

    results = []
    with concurrent.futures.ThreadPoolExecutor(a.jobs) as ex:
        futs = {ex.submit(spawn, prop, o, tier, seed, workdir): o
                for o in oids}
        for f in concurrent.futures.as_completed(futs):
            results.append(f.result())
    results.sort(key=lambda r: oids.index(r['id']))

    known = [k for k in load_known() if k.get('property') == prop]
    errors, unlisted, listed = [], [], []
    for r in results:
        v = r['verdict']
        print('%-9s %-20s paths=%-7s queries=%-7s solver=%ss wall=%ss %s'
              % (r['id'], v, r.get('paths'), r.get('queries'),
                 r.get('solver_s'), r.get('wall_s'),
                 (r.get('doc') or '').split('\n')[0][:70]))
        if v == 'error':
            errors.append('%s: %s' % (r['id'], r.get('error')))
        for m in r.get('inconclusive') or []:
            print('   inconclusive:', m)
        for viol in r.get('violations') or []:
            if not viol.get('reproduced'):
                errors.append('%s: model for %s did not reproduce in the '
                              'concrete replay (%s)'
                              % (r['id'], viol.get('label'),
                                 viol.get('replay_error')
                                 or viol.get('strong_replay')
                                 or viol.get('replay_failed_labels')))
                continue
            sig = viol.get('signature')
            hit = None
            for k in known:
                if k.get('status', 'open') != 'open':
                    continue
                if fnmatch.fnmatchcase(sig, k['signature']):
                    hit = k
                    break
            rp = write_replay(prop, r['id'], viol)
            viol['replay_file'] = rp
            if hit:
                listed.append((hit, viol))
            else:
                unlisted.append((r['id'], viol, rp))

    seen = set()
    for k, viol in listed:
        if k['signature'] in seen:
            continue
        seen.add(k['signature'])
        print('KNOWN-FINDING: property=%s %s' % (prop, k['what']))
    shown = set()
    for oid, viol, rp in unlisted:
        if (oid, viol.get('signature')) in shown:
            continue
        shown.add((oid, viol.get('signature')))
        print('  counterexample %s [%s] %s' % (
            oid, viol.get('signature'),
            json.dumps(viol.get('info', {}).get('rendered')
                       or viol.get('model'))[:600]))
        print('VIOLATION property=%s replay=%s' % (prop, rp))
    for e in errors:
        print('HARNESS-ERROR:', e)

    write_evidence(prop, tier, seed, results, len(unlisted), len(listed),
                   time.time() - t0, errors)
    if unlisted:
        return 1
    if errors:
        return 2
    return 0


def write_replay(prop, oid, viol):
    body = {'property': prop, 'obligation': oid, 'case': viol.get('case'),
            'label': viol.get('label'), 'signature': viol.get('signature'),
            'model': viol.get('model'), 'info': viol.get('info'),
            'strong_replay': viol.get('strong_replay')}
    h = hashlib.sha256(json.dumps(
        [oid, viol.get('case'), viol.get('label'), viol.get('signature')],
        sort_keys=True).encode()).hexdigest()[:10]
    p = os.path.join(VERIF, 'replays', '%s-%s.json' % (oid, h))
    with open(p, 'w') as f:
        f.write(kit.dumps(body))
    return p


def do_replay(prop, path):
    with open(path) as f:
        body = json.load(f)
    load(prop)
    kit.boot()
    ob = kit.REGISTRY[body['obligation']]
    if hasattr(ob.fn, 'replay'):
        ok = ob.fn.replay(body)
    else:
        import inspect
        if not inspect.isgeneratorfunction(ob.fn):
            print('obligation has no replay hook')
            return 2
        failed = kit.replay_case(ob.fn(kit.Ctx('thorough', 0)), body['case'],
                                 body['model'])
        ok = body['label'] in failed
        print('replay: failed checks =', failed)
    print('REPRODUCED' if ok else 'NOT REPRODUCED')
    return 1 if ok else 0


def write_evidence(prop, tier, seed, results, n_viol, n_known, wall, errors):
    obligations = len(results)
    discharged = sum(1 for r in results
                     if r['verdict'] == 'holds-within-bound')
    paths = sum(r.get('paths') or 0 for r in results)
    queries = sum(r.get('queries') or 0 for r in results)
    solver_s = round(sum(r.get('solver_s') or 0 for r in results), 3)
    cases = sum(r.get('cases') or 0 for r in results)
    replays = sum(r.get('replays') or 0 for r in results)
    samples = []
    for r in results:
        for s in (r.get('samples') or [])[:2]:
            samples.append({'obligation': r['id'], 'sample': s})
    if not samples:
        samples = [{'obligation': r['id'], 'verdict': r['verdict']}
                   for r in results]
    funcs = []
    for r in results:
        for f in r.get('functions') or []:
            if f not in funcs:
                funcs.append(f)
    stubs = sorted({s for r in results for s in (r.get('stubs') or [])})
    ev = {
        'property_id': prop,
        'tier': tier,
        'seed': seed,
        'level': LEVEL,
        'wall_s': round(wall, 2),
        'violations': n_viol,
        'coverage': {
            'states': max(paths, 1) if paths else max(queries, 1),
            'transitions': max(sum((r.get('checks') or 0)
                                   for r in results) + queries, 1),
            'traces_validated_against_impl': replays + sum(
                (r.get('extra') or {}).get('validation_runs', 0)
                for r in results),
            'evaluations': max(paths + sum(
                (r.get('extra') or {}).get('direct_queries', 0)
                for r in results), 1),
            'distinct_nontrivial': paths + sum(
                (r.get('extra') or {}).get('direct_queries', 0)
                for r in results),
            'rule': 'one evaluation = one symbolic path of the real code '
                    '(a distinct path condition, decided by z3 for all '
                    'values of its symbolic inputs) or one direct SMT query; '
                    'paths are distinct by construction of the DFS (each '
                    'differs in at least one branch decision); states = '
                    'symbolic paths, transitions = solver-decided property '
                    'checks + branch feasibility queries',
            'samples': samples[:12],
            'obligations': obligations,
            'discharged': discharged,
            'exhaustive': all(r.get('exhaustive', False) for r in results
                              if r['verdict'] == 'holds-within-bound'),
            'explanation': 'bounded symbolic execution of the real mistral '
                           'functions; every path decided by z3; see '
                           'per_obligation for functions, bounds, queries',
            'solver_queries': queries,
            'solver_seconds': solver_s,
            'symbolic_paths': paths,
            'cases': cases,
            'known_findings_matched': n_known,
            'functions_encoded': funcs,
            'per_obligation': [
                {k: r.get(k) for k in (
                    'id', 'verdict', 'engine', 'doc', 'bounds', 'stubs',
                    'outside', 'paths', 'queries', 'solver_s', 'checks',
                    'checks_unsat', 'cases', 'replays', 'wall_s',
                    'inconclusive', 'witnesses_needed', 'witnesses_found',
                    'violations', 'notes', 'extra', 'error')}
                for r in results],
            'harness_errors': errors,
        },
        'assumptions': [
            'bounds per obligation as listed under '
            'coverage.per_obligation[].bounds; nothing is claimed outside',
            'environment stubs: ' + (', '.join(stubs) or 'none'),
            'z3 5.1 verdicts; CPython 3.12 semantics of the code under '
            'analysis; symx proxies and translators in /verif/vt',
        ],
    }
    p = os.path.join(VERIF, 'evidence', '%s.json' % prop)
    with open(p, 'w') as f:
        f.write(kit.dumps(ev))


if __name__ == '__main__':
    if len(sys.argv) > 1 and sys.argv[1] == '--worker':
        worker(sys.argv[2], sys.argv[3], sys.argv[4], int(sys.argv[5]),
               sys.argv[6])
        # some mistral modules leave non-daemon threads behind
        sys.stdout.flush()
        os._exit(0)
    sys.exit(main())
