"""symx.actors - symbolic interleavings of real code.

Each actor runs a real function in its own OS thread (thread-locals - auth
context, DB session, post-tx queue - stay per actor, as in production).  Every
stubbed DB / clock / RPC operation is a hand-off point: the actor parks and the
controller picks the next runnable actor with a solver-chosen index, so the
schedule is a symbolic variable and every schedule within the bound is
explored by the DFS.  Exactly one thread runs at any time.

A *crash* of an actor at a hand-off point is a symbolic boolean; it is
delivered as a BaseException that unwinds the actor (its open transaction is
rolled back by the real ``finally`` blocks / session close, no further DB
operation is accepted from it).
"""
import threading

from vt import symx


class Crash(BaseException):
    pass


class _Killed(BaseException):
    pass


class Actor(object):
    def __init__(self, name, fn, may_crash=False):
        self.name = name
        self.fn = fn
        self.may_crash = may_crash
        self.thread = None
        self.go = threading.Semaphore(0)
        self.state = 'new'        # new | parked | blocked | done | crashed
        self.blocked_on = None
        self.exc = None
        self.result = None
        self.steps = 0
        self.crash_now = False
        self.crashed = False
        self.kill = False
        self.at = None            # label of the hand-off it is parked at


class Actors(object):
    def __init__(self, max_steps=200, crash_budget=0, preemptions=None):
        # preemptions: None = every interleaving; k = the running actor is
        # switched away from at most k times while it could still run
        # (context-bounded exploration, Musuvathi & Qadeer)
        self.preemptions = preemptions
        self.used_preemptions = 0
        self.last = None
        self.actors = []
        self.back = threading.Semaphore(0)
        self.current = None
        self.max_steps = max_steps
        self.crash_budget = crash_budget
        self.trace = []
        self._tl = threading.local()
        self.truncated = False

    # -- construction ---------------------------------------------------
    def spawn(self, name, fn, may_crash=False):
        a = Actor(name, fn, may_crash)
        self.actors.append(a)
        return a

    def me(self):
        return getattr(self._tl, 'actor', None)

    # -- called from actor threads ---------------------------------------
    def hand_off(self, label=''):
        """Park the calling actor and give control to the controller."""
        a = self.me()
        if a is None:
            return          # controller / harness thread: no interleaving
        if a.crashed:
            raise Crash()
        a.at = label
        a.state = 'parked'
        self.back.release()
        a.go.acquire()
        if a.kill:
            raise _Killed()
        if a.crash_now:
            a.crash_now = False
            a.crashed = True
            raise Crash()
        a.state = 'running'

    def block(self, holder_pred):
        """Park until ``holder_pred()`` is false (row lock released)."""
        a = self.me()
        if a is None:
            raise symx.HarnessError('controller thread blocked on a lock')
        a.blocked_on = holder_pred
        a.state = 'blocked'
        a.at = 'blocked'
        self.back.release()
        a.go.acquire()
        if a.kill:
            raise _Killed()
        a.blocked_on = None
        a.state = 'running'

    # -- controller -----------------------------------------------------
    def _body(self, a):
        self._tl.actor = a
        a.go.acquire()
        try:
            if a.kill:
                return
            a.state = 'running'
            a.result = a.fn()
        except Crash:
            a.crashed = True
        except _Killed:
            pass
        except BaseException as e:  # noqa  (PathAbort, Budget, real errors)
            a.exc = e
        finally:
            a.state = 'crashed' if a.crashed else 'done'
            self.back.release()

    def run(self):
        for a in self.actors:
            a.thread = threading.Thread(target=self._body, args=(a,),
                                        name=a.name, daemon=True)
            a.thread.start()
            a.state = 'parked'
            a.at = 'start'
        steps = 0
        crashes = 0
        try:
            while True:
                runnable = [a for a in self.actors
                            if a.state == 'parked'
                            or (a.state == 'blocked'
                                and not a.blocked_on())]
                if not runnable:
                    stuck = [a for a in self.actors if a.state == 'blocked']
                    if stuck:
                        raise symx.HarnessError(
                            'deadlock among actors: %s'
                            % [a.name for a in stuck])
                    return
                if steps >= self.max_steps:
                    self.truncated = True
                    return
                if self.preemptions is not None and self.last in runnable \
                        and self.used_preemptions >= self.preemptions:
                    a = self.last
                else:
                    if self.last in runnable:
                        runnable.remove(self.last)
                        runnable.insert(0, self.last)
                    a = symx.choice('sched%d' % steps, runnable)
                    if self.last is not None and a is not self.last and \
                            self.last in runnable:
                        self.used_preemptions += 1
                self.last = a
                crash = False
                if a.may_crash and crashes < self.crash_budget and \
                        a.at not in ('start',) and a.state == 'parked':
                    if symx.fresh_bool('crash%d' % steps):
                        crash = True
                        crashes += 1
                self.trace.append((a.name, a.at, 'CRASH' if crash else ''))
                a.crash_now = crash
                a.steps += 1
                steps += 1
                a.go.release()
                self.back.acquire()
                if a.exc is not None:
                    raise a.exc
        finally:
            self._kill_all()

    def _kill_all(self):
        for a in self.actors:
            if a.state in ('parked', 'blocked', 'new'):
                a.kill = True
                a.go.release()
        for a in self.actors:
            if a.thread is not None:
                a.thread.join(timeout=5)

    def schedule_str(self):
        return ' '.join('%s@%s%s' % (n, at, ('!' + c) if c else '')
                        for n, at, c in self.trace)


def attach(db, actors):
    """Make every minidb statement of an actor thread a hand-off point and
    row-lock waits a 'blocked' state."""
    def on_op(session, op):
        actors.hand_off(op)

    def on_block(session, holder, key):
        if key and key[0] == 'ulock':
            actors.block(lambda: holder.open and key[1] in holder.ulocks)
        else:
            actors.block(lambda: holder.open and key in holder.locks)
    db.on_op = on_op
    db.on_block = on_block
    db._actors = actors
    return actors
