"""Scenarios on top of World + Explorer: operator commands and duplicate
deliveries at solver-chosen points of a run."""
from vt import symx
from vt.symx import choice, check, reach, note, fresh_bool


def make(text, sig, preemptions=0, fixed_guards=None, wf_name='wf',
         world_kw=None):
    """-> (world, explorer): call inside ``with world:`` after creation."""
    from vt.world import World
    from vt.explorer import Explorer
    from mistral import expressions
    holder = {}
    real_eval = expressions.evaluate

    def stub(e, c):
        return holder['ex'].expr_stub(real_eval)(e, c)
    w = World([text] if isinstance(text, str) else list(text),
              expr_stub=stub, **(world_kw or {}))

    def start():
        ex = Explorer(w, sig, preemptions=preemptions,
                      guards=dict(fixed_guards or {}))
        holder['ex'] = ex
        wid = w.start(wf_name)
        ex.check_invariants()
        return ex, wid
    return w, start


def run_with_ops(ex, w, ops, max_events=150):
    """Deliver events; ``ops`` is a list of [at_step, callable(ex, w)] -
    the callable runs right before the delivery with that index (or at the
    end, if the run is shorter)."""
    step = 0
    pending = list(ops)
    while True:
        for o in list(pending):
            if o[0] == step:
                pending.remove(o)
                o[1](ex, w)
        if not w.events:
            break
        step += 1
        if step > max_events:
            check(False, 'event-bound-exceeded',
                  {'signature': ex.sig + ':event-bound'})
            return
        ex.deliver(ex.pick())
    for o in pending:
        o[1](ex, w)
    # commands issued at the very end may have produced new events
    n = 0
    while w.events and n < max_events:
        n += 1
        ex.deliver(ex.pick())


def final_check(ex, w, wid, spec, sig, ignore_pause=False, tasks_too=True):
    from vt import refsem
    from mistral import exceptions as exc
    wf_state, tasks, dup = ex.summary(wid)
    ref_wf, ref_tasks, _ = refsem.reference(spec, ex.outcome, ex.guard,
                                            ignore_pause=ignore_pause)

    def inf(s):
        return {'signature': '%s:%s%s' % (sig, s, (':after-' + ex.taint)
                                          if ex.taint else ''),
                'trace': ex.trace[-30:], 'outcomes': dict(ex.outcomes),
                'guards': dict(ex.guards), 'engine': [wf_state, tasks],
                'reference': [ref_wf, ref_tasks]}
    check(wf_state == ref_wf, 'final-state-differs-from-language',
          inf('final-state'))
    if tasks_too:
        check(tasks == ref_tasks, 'tasks-differ-from-language',
              inf('tasks'))
        check(not dup, 'task-ran-twice', inf('task-twice'))
    bad = [(m, repr(e)[:200]) for m, e in w.errors
           if not isinstance(e, (exc.MistralException, ValueError))]
    check(not bad, 'engine-entry-point-raised-undeclared-error',
          dict(inf('undeclared-error'), errors=bad))
    check(not w.swallowed, 'post-commit-operation-failed',
          dict(inf('post-commit-error'),
               errors=[repr(x)[:200] for x in w.swallowed]))
    return inf
