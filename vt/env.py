"""Environment stubs shared by the harnesses (DESIGN §2.4)."""
import contextlib
import datetime as _real_dt
import json

from vt import symx


class VClock(object):
    """Replaces mistral_lib.utils.utc_now_sec / oslo timeutils.utcnow.

    Every call returns a fresh symbolic reading constrained only to be
    non-decreasing in program order (whole seconds: the code truncates to
    seconds itself)."""

    def __init__(self, name='now', lo=0, hi=None, step_max=None):
        self.name = name
        self.lo = lo
        self.hi = hi
        self.step_max = step_max
        self.readings = []

    def now(self):
        t = symx.fresh_time(self.name, self.lo, self.hi)
        if self.readings:
            symx.assume(t >= self.readings[-1])
            if self.step_max is not None:
                symx.assume(t <= self.readings[-1]
                            + _real_dt.timedelta(seconds=self.step_max))
        self.readings.append(t)
        return t

    @contextlib.contextmanager
    def installed(self):
        import mistral_lib.utils as u
        from oslo_utils import timeutils
        s1, s2 = u.utc_now_sec, timeutils.utcnow
        u.utc_now_sec = self.now
        timeutils.utcnow = lambda with_timezone=False: self.now()
        try:
            yield self
        finally:
            u.utc_now_sec, timeutils.utcnow = s1, s2


class DtShim(object):
    """``datetime`` module stand-in for one module under analysis:
    ``timedelta(seconds=<SymInt>)`` yields a SymDelta; everything else is the
    real datetime module."""

    def __init__(self):
        self.datetime = _real_dt.datetime
        self.date = _real_dt.date
        self.timezone = _real_dt.timezone

    def timedelta(self, *a, **kw):
        if a:
            return _real_dt.timedelta(*a, **kw)
        sym = [k for k, v in kw.items() if isinstance(v, symx.SymInt)]
        if not sym:
            return _real_dt.timedelta(**kw)
        total = 0
        mult = {'seconds': 1, 'minutes': 60, 'hours': 3600, 'days': 86400}
        for k, v in kw.items():
            if k not in mult:
                raise symx.ProxyMisuse('timedelta(%s=<symbolic>)' % k)
            total = total + v * mult[k]
        return symx.SymDelta(total.t if isinstance(total, symx.SymInt)
                             else total)

    def __getattr__(self, k):
        return getattr(_real_dt, k)


@contextlib.contextmanager
def dt_shim(*modules):
    shim = DtShim()
    saved = [(m, m.datetime) for m in modules]
    for m in modules:
        m.datetime = shim
    try:
        yield shim
    finally:
        for m, d in saved:
            m.datetime = d


class _Group(object):
    def __init__(self, real, over):
        object.__setattr__(self, '_real', real)
        object.__setattr__(self, '_over', over)

    def __getattr__(self, k):
        over = object.__getattribute__(self, '_over')
        if k in over:
            return over[k]
        return getattr(object.__getattribute__(self, '_real'), k)


class ConfShim(object):
    """``CONF`` stand-in for one module: selected options return harness
    values (possibly symbolic); the rest is the real oslo.config object."""

    def __init__(self, real, overrides):
        object.__setattr__(self, '_real', real)
        object.__setattr__(self, '_over', overrides)

    def __getattr__(self, k):
        over = object.__getattribute__(self, '_over')
        real = object.__getattribute__(self, '_real')
        if k in over and isinstance(over[k], dict):
            return _Group(getattr(real, k), over[k])
        if k in over:
            return over[k]
        return getattr(real, k)


@contextlib.contextmanager
def conf_shim(overrides, *modules, attr='CONF'):
    saved = [(m, getattr(m, attr)) for m in modules]
    for m in modules:
        setattr(m, attr, ConfShim(getattr(m, attr), overrides))
    try:
        yield
    finally:
        for m, c in saved:
            setattr(m, attr, c)


@contextlib.contextmanager
def patched(obj, name, value):
    old = getattr(obj, name)
    setattr(obj, name, value)
    try:
        yield
    finally:
        setattr(obj, name, old)


@contextlib.contextmanager
def auth_ctx(project_id='proj-a', is_admin=False, user_id='u'):
    """A real mistral.context.MistralContext for the current thread."""
    from mistral import context
    ctx = context.MistralContext(user_id=user_id, project_id=project_id,
                                 auth_token='t', is_admin=is_admin,
                                 roles=['admin'] if is_admin is True else [])
    old = context.ctx() if context.has_ctx() else None
    context.set_ctx(ctx)
    try:
        yield ctx
    finally:
        context.set_ctx(old)


_SCHEMA_OK = {}


def fast_schema_check():
    """jsonschema.validate() re-validates the *schema* against the draft
    meta-schema on every call (~0.1 s); the DSL schemas are class-level
    objects, so the verdict is memoised per schema object (first call is the
    real check; a schema that changes identity or content is checked
    again)."""
    import jsonschema.validators as jv
    if getattr(jv, '_vt_fast', False):
        return
    jv._vt_fast = True
    for cls in set(jv._META_SCHEMAS.values()) | {jv._LATEST_VERSION}:
        real = cls.check_schema.__func__

        def memo(klass, schema, *a, _real=real, **kw):
            try:
                key = (klass, id(schema), json.dumps(schema, sort_keys=True,
                                                     default=repr))
            except Exception:  # noqa
                return _real(klass, schema, *a, **kw)
            if key in _SCHEMA_OK:
                return
            _real(klass, schema, *a, **kw)
            _SCHEMA_OK[key] = schema
        cls.check_schema = classmethod(memo)
