"""Bounded exploration of runs of the REAL engine (World): action outcomes,
guard values, delivery order, duplicates and operator commands are solver
choices; invariants are checked on the committed database state after every
delivery and a final-state oracle at quiescence."""
from vt import symx
from vt.symx import choice, check, reach, note, fresh_bool

COMPLETED = ('SUCCESS', 'ERROR', 'CANCELLED', 'SKIPPED')
TERMINAL_WF = ('SUCCESS', 'ERROR', 'CANCELLED')

# the property's lifecycle relations (C03)
WF_MOVES = {
    'IDLE': {'RUNNING'},
    'RUNNING': {'PAUSED', 'SUCCESS', 'ERROR', 'CANCELLED'},
    'PAUSED': {'RUNNING', 'ERROR', 'CANCELLED'},
    'ERROR': {'RUNNING'},        # only through an explicit rerun
    'CANCELLED': {'RUNNING'},    # only through an explicit rerun
    'SUCCESS': set(),
}


class Snapshot(object):
    def __init__(self, world):
        self.wfs = {w['id']: dict(state=w['state'], output=w['output'],
                                  accepted=w['accepted'],
                                  parent=w['task_execution_id'])
                    for w in world.rows('WorkflowExecution')}
        self.tasks = {t['id']: dict(state=t['state'], name=t['name'],
                                    wf=t['workflow_execution_id'],
                                    processed=t['processed'],
                                    join=bool(t['unique_key']))
                      for t in world.rows('TaskExecution')}
        self.actions = {a['id']: dict(state=a['state'],
                                      accepted=a['accepted'],
                                      output=a['output'],
                                      task=a['task_execution_id'])
                        for a in world.rows('ActionExecution')}


class Explorer(object):
    def __init__(self, world, sig, preemptions=None, outcomes=None,
                 guards=None, rerun_allowed=False):
        self.w = world
        self.sig = sig
        self.preemptions = preemptions    # None = every order
        self.used_preemptions = 0
        self.outcomes = outcomes if outcomes is not None else {}
        self.guards = guards if guards is not None else {}
        self.rerun_allowed = rerun_allowed
        self.snap = Snapshot(world)
        self.step_no = 0
        self.paused_since = {}     # wf id -> set of task ids at pause time
        self.stopped = {}          # wf id -> (state, task ids at stop time)
        self.trace = []
        self.taint = None          # a known mechanism already seen on path
        self.cas_pos = 0

    # -- choices ------------------------------------------------------------
    def outcome(self, task_name):
        if task_name not in self.outcomes:
            self.outcomes[task_name] = choice('out_' + task_name,
                                              ['SUCCESS', 'ERROR'])
        return self.outcomes[task_name]

    def guard(self, task_name, cond):
        key = cond
        if key not in self.guards:
            self.guards[key] = bool(fresh_bool(
                'guard_' + ''.join(c for c in cond if c.isalnum())))
        return self.guards[key]

    def expr_stub(self, real):
        """expressions.evaluate replacement: guard strings are symbolic."""
        def evaluate(expression, context):
            if isinstance(expression, str) and expression.startswith('<% $.g'):
                return self.guard(None, expression)
            return real(expression, context)
        return evaluate

    def pick(self):
        evs = self.w.events
        if len(evs) == 1:
            return evs[0]
        if self.preemptions is not None and \
                self.used_preemptions >= self.preemptions:
            return evs[0]
        ev = choice('order%d' % self.step_no, evs)
        if ev is not evs[0]:
            self.used_preemptions += 1
        return ev

    def result_for(self, ev):
        from mistral_lib import actions as ml
        tid = ev.payload['exec_ctx'].get('task_execution_id')
        name = self.snap.tasks.get(tid, {}).get('name')
        if name is None:
            for t in self.w.rows('TaskExecution'):
                if t['id'] == tid:
                    name = t['name']
        out = self.outcome(name)
        if out == 'SUCCESS':
            return ml.Result(data='ok-' + str(name))
        return ml.Result(error='boom-' + str(name))

    # -- stepping -----------------------------------------------------------
    def deliver(self, ev, result=None, keep=False):
        self.step_no += 1
        self.trace.append(repr(ev))
        if ev.kind == 'action' and result is None:
            result = self.result_for(ev)
        self.w.deliver(ev, result, keep=keep)
        self.check_invariants()

    def run(self, max_events=120, until=None):
        n = 0
        while self.w.events:
            if until is not None and until(self):
                return
            n += 1
            if n > max_events:
                check(False, 'event-bound-exceeded',
                      {'signature': self.sig + ':event-bound'})
                return
            self.deliver(self.pick())

    def operator(self, method, *a, **kw):
        self.step_no += 1
        self.trace.append('operator %s' % method)
        before = len(self.w.errors)
        r = self.w.call(method, *a, **kw)
        self.check_invariants(operator=method)
        return r, self.w.errors[before:]

    # -- invariants ---------------------------------------------------------
    def check_invariants(self, operator=None):
        new = Snapshot(self.w)
        old = self.snap
        sig = self.sig
        info = {'trace': self.trace[-12:]}

        def viol(label, s, **kw):
            d = dict(info)
            d.update(kw)
            d['signature'] = '%s:%s' % (sig, s)
            if self.taint and s != self.taint:
                d['signature'] += ':after-' + self.taint
            check(False, label, d)
        for wid, w in new.wfs.items():
            o = old.wfs.get(wid)
            if o is None:
                continue
            if o['state'] != w['state']:
                # the individual compare-and-swap updates of this delivery
                # must each be a legal move and lead from the old to the
                # new state
                chain = [(c[2], c[3]) for c in self.w.cas_log[self.cas_pos:]
                         if c[0] == 'wf' and c[1] == wid and c[4]
                         and c[2] != c[3]]
                cur = o['state']
                ok = bool(chain)
                for a, b in chain:
                    if a != cur or b not in WF_MOVES.get(a, set()):
                        ok = False
                    if a in ('ERROR', 'CANCELLED') and \
                            operator != 'rerun_workflow':
                        ok = False
                    cur = b
                if cur != w['state']:
                    ok = False
                if not ok:
                    viol('illegal-workflow-transition', 'wf-transition',
                         move='%s->%s via %s' % (o['state'], w['state'],
                                                 chain))
            elif o['state'] in TERMINAL_WF and o['output'] != w['output']:
                moved = [c for c in self.w.cas_log[self.cas_pos:]
                         if c[0] == 'wf' and c[1] == wid and c[4]
                         and c[2] != c[3]]
                if not (moved and operator == 'rerun_workflow'):
                    viol('finished-workflow-output-changed',
                         'wf-output-changed')
        for tid, t in new.tasks.items():
            o = old.tasks.get(tid)
            if o is None:
                wf = new.wfs.get(t['wf'], {})
                owf = old.wfs.get(t['wf'])
                if owf is not None and owf['state'] == 'PAUSED' and \
                        wf.get('state') == 'PAUSED':
                    viol('task-created-while-paused', 'created-while-paused',
                         task=t['name'])
                if owf is not None and owf['state'] in TERMINAL_WF and \
                        wf.get('state') in TERMINAL_WF:
                    viol('task-created-in-finished-workflow',
                         'created-after-finish', task=t['name'])
                continue
            if t['join'] and t['state'] == 'WAITING' and \
                    o['state'] in COMPLETED + ('RUNNING',) and \
                    operator != 'rerun_workflow' and \
                    not (self.rerun_allowed and
                         o['state'] in ('ERROR', 'CANCELLED')):
                # Task.defer() resets an already started / finished join
                # when one more inbound branch routes to it
                self.taint = 'join-reset'
                viol('started-join-reset-to-waiting', 'join-reset',
                     task=t['name'], move='%s->WAITING' % o['state'])
                continue
            if o['state'] == 'SUCCESS' and t['state'] != 'SUCCESS':
                viol('succeeded-task-changed-state', 'task-left-success',
                     task=t['name'], move='SUCCESS->%s' % t['state'])
            if o['state'] in ('ERROR', 'CANCELLED') and \
                    t['state'] != o['state'] and \
                    operator != 'rerun_workflow' and not self.rerun_allowed:
                viol('failed-task-changed-state', 'task-left-terminal',
                     task=t['name'],
                     move='%s->%s' % (o['state'], t['state']))
        for aid, a in new.actions.items():
            o = old.actions.get(aid)
            if o is None:
                continue
            if o['accepted'] and o['state'] in COMPLETED and \
                    (a['state'] != o['state'] or a['output'] != o['output']) \
                    and operator != 'rerun_workflow':
                viol('accepted-action-result-changed',
                     'action-result-changed')
        self.snap = new
        self.cas_pos = len(self.w.cas_log)

    # -- reporting -------------------------------------------------------------
    def summary(self, wf_ex_id):
        w = self.snap.wfs.get(wf_ex_id, {})
        tasks = {}
        dup = []
        for t in self.snap.tasks.values():
            if t['wf'] != wf_ex_id:
                continue
            if t['name'] in tasks:
                dup.append(t['name'])
            tasks[t['name']] = t['state']
        return w.get('state'), tasks, dup
