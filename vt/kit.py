"""Harness kit: boot of the real mistral code, obligation registry, results."""
import hashlib
import importlib
import inspect
import json
import os
import sys
import time
import traceback

VERIF = os.path.dirname(os.path.dirname(os.path.abspath(__file__)))
REPO = os.environ.get('VERIF_REPO', '/repo')

_BOOTED = False


def boot():
    """Import the real mistral tree exactly as mistral/cmd does: THREADING
    backend of oslo.service selected before anything else is imported."""
    global _BOOTED
    if _BOOTED:
        return
    import warnings
    warnings.filterwarnings('ignore')
    import logging
    logging.disable(logging.CRITICAL)
    if REPO not in sys.path:
        sys.path.insert(0, REPO)
    from oslo_service import backend
    try:
        backend.init_backend(backend.BackendType.THREADING)
    except Exception:
        pass
    import mistral
    if not os.path.abspath(mistral.__file__).startswith(
            os.path.abspath(REPO)):
        raise RuntimeError('mistral imported from %s, not %s'
                           % (mistral.__file__, REPO))
    from mistral import config  # noqa  registers options
    from oslo_config import cfg
    if not cfg.CONF._args and cfg.CONF._namespace is None:
        try:
            cfg.CONF(args=[], project='mistral', default_config_files=[])
        except Exception:
            pass
    import mistral.db.v2.api  # noqa  (before sqlalchemy.api: circular import)
    _BOOTED = True


def src_hash(obj):
    try:
        src = inspect.getsource(obj)
    except Exception:
        return None
    return hashlib.sha256(src.encode()).hexdigest()[:12]


def describe(fn_paths):
    """['mistral.utils.egress:validate_url', ...] -> [{name, sha}]"""
    out = []
    for p in fn_paths:
        mod, _, qual = p.partition(':')
        try:
            o = importlib.import_module(mod)
            for part in qual.split('.'):
                if part:
                    o = getattr(o, part)
            o = inspect.unwrap(o) if callable(o) else o
            out.append({'name': p, 'sha': src_hash(o)})
        except Exception as e:
            out.append({'name': p, 'sha': None, 'error': repr(e)})
    return out


class Obligation(object):
    def __init__(self, oid, fn, engine, functions, bounds, stubs, outside,
                 doc, timeout):
        self.id = oid
        self.fn = fn
        self.engine = engine
        self.functions = functions
        self.bounds = bounds
        self.stubs = stubs
        self.outside = outside
        self.doc = doc
        self.timeout = timeout


REGISTRY = {}


def obligation(oid, engine, functions, bounds, stubs=(), outside='',
               timeout=(120, 900)):
    """Register ``fn(ctx) -> Result``.  bounds: {'quick':..., 'thorough':...}
    or a plain string."""
    def deco(fn):
        REGISTRY[oid] = Obligation(oid, fn, engine, list(functions), bounds,
                                   list(stubs), outside,
                                   (fn.__doc__ or '').strip(), timeout)
        return fn
    return deco


class Ctx(object):
    def __init__(self, tier, seed):
        self.tier = tier
        self.seed = seed
        self.quick = tier == 'quick'

    def pick(self, q, t):
        return q if self.quick else t


class Result(object):
    """What one obligation reports."""

    def __init__(self):
        self.verdict = None
        self.paths = 0
        self.queries = 0
        self.solver_s = 0.0
        self.checks = 0
        self.checks_unsat = 0
        self.cases = 0             # shapes / configurations executed
        self.violations = []       # dicts: label, signature, model, info
        self.inconclusive = []
        self.witnesses_needed = []
        self.witnesses_found = []
        self.samples = []
        self.notes = []
        self.replays = 0           # concrete replays executed against impl
        self.exhaustive = True
        self.extra = {}

    def add_engine(self, eng, case=None, needed=()):
        """Fold one finished symx exploration into the result."""
        self.add_summary(summarise(eng), case, needed)

    def add_summary(self, sm, case=None, needed=()):
        self.paths += sm['paths']
        self.queries += sm['queries']
        self.solver_s += sm['solver_s']
        self.checks += sm['checks']
        self.checks_unsat += sm['checks_unsat']
        self.cases += 1
        if not sm['exhausted']:
            self.exhaustive = False
        for m in sm['inconclusive']:
            self.inconclusive.append('%s: %s' % (case, m) if case else m)
        for d in sm['violations']:
            d = dict(d)
            d['case'] = case
            self.violations.append(d)
        for w in needed:
            if w not in self.witnesses_needed:
                self.witnesses_needed.append(w)
        for w in sm['witnesses']:
            if w not in self.witnesses_found:
                self.witnesses_found.append(w)
        if len(self.samples) < 4 and sm['samples']:
            s = dict(sm['samples'][0])
            s['case'] = case
            self.samples.append(s)

    def to_json(self):
        d = dict(self.__dict__)
        d['solver_s'] = round(self.solver_s, 3)
        return d


def summarise(eng):
    return {'paths': eng.paths, 'queries': eng.queries,
            'solver_s': eng.solver_s, 'checks': eng.checks_total,
            'checks_unsat': eng.checks_unsat, 'exhausted': eng.exhausted,
            'inconclusive': list(eng.inconclusive),
            'violations': [v.to_json() for v in eng.violations],
            'witnesses': list(eng.witnesses), 'samples': eng.samples[:2],
            'witness_models': dict(list(eng.witnesses.items())[:3])}


def merge_summaries(sms):
    out = {'paths': 0, 'queries': 0, 'solver_s': 0.0, 'checks': 0,
           'checks_unsat': 0, 'exhausted': True, 'inconclusive': [],
           'violations': [], 'witnesses': [], 'samples': [],
           'witness_models': {}}
    for sm in sms:
        for k, v in (sm.get('witness_models') or {}).items():
            if len(out['witness_models']) < 3:
                out['witness_models'].setdefault(k, v)
        for k in ('paths', 'queries', 'solver_s', 'checks', 'checks_unsat'):
            out[k] += sm[k]
        out['exhausted'] = out['exhausted'] and sm['exhausted']
        out['inconclusive'] += sm['inconclusive']
        out['violations'] += sm['violations']
        for w in sm['witnesses']:
            if w not in out['witnesses']:
                out['witnesses'].append(w)
        out['samples'] += sm['samples'][:1]
    return out


_SHARD_FN = None


def _shard_worker(args):
    name, prefix, max_paths, deadline = args
    from vt import symx
    symx._CUR = None
    tmo = None
    if deadline is not None:
        tmo = max(deadline - time.time(), 0.01)
    eng = symx.Engine(name=name, max_paths=max_paths, timeout_s=tmo)
    try:
        eng.explore(_SHARD_FN, root_prefix=prefix)
    except symx.HarnessError as e:
        eng.inconclusive.append('shard harness error: %r' % (e,))
        eng.exhausted = False
    sm = summarise(eng)
    # z3 models are plain python values already
    return sm


def explore_case(case, fn, tmo):
    """One exploration; sharded over a fork pool when the case asks."""
    from vt import symx
    global _SHARD_FN
    if not case.shard_depth:
        eng = symx.Engine(name=case.name, max_paths=case.max_paths,
                          timeout_s=tmo)
        eng.explore(fn)
        return summarise(eng)
    t0 = time.time()
    head = symx.Engine(name=case.name, max_paths=case.max_paths,
                       timeout_s=tmo)
    head.depth_limit = case.shard_depth
    head.explore(fn)
    sms = [summarise(head)]
    frontier = head.frontier
    if frontier:
        import multiprocessing
        _SHARD_FN = fn
        deadline = (t0 + tmo) if tmo else None
        ctx = multiprocessing.get_context('fork')
        jobs = [(case.name, p, case.max_paths, deadline) for p in frontier]
        with ctx.Pool(min(case.procs, len(jobs))) as pool:
            sms += pool.map(_shard_worker, jobs, chunksize=1)
    sm = merge_summaries(sms)
    sm['shards'] = len(frontier)
    return sm


def run_obligation(oid, tier, seed):
    """Executed in its own process by vt.run."""
    boot()
    ob = REGISTRY[oid]
    ctx = Ctx(tier, seed)
    t0 = time.time()
    out = {'id': oid, 'engine': ob.engine, 'doc': ob.doc,
           'bounds': (ob.bounds.get(tier) if isinstance(ob.bounds, dict)
                      else ob.bounds),
           'stubs': ob.stubs, 'outside': ob.outside}
    try:
        if inspect.isgeneratorfunction(ob.fn):
            tmo = ob.timeout[0 if ctx.quick else 1]
            res = drive_cases(oid, ob.fn(ctx), budget_s=tmo * 0.85)
        else:
            res = ob.fn(ctx)
        out.update(res.to_json())
        out['functions'] = describe(ob.functions)
        missing = [w for w in res.witnesses_needed
                   if w not in res.witnesses_found]
        if missing:
            out['verdict'] = 'error'
            out['error'] = ('vacuity: reachability witnesses not found: %s'
                            % missing)
        elif res.violations:
            out['verdict'] = 'refuted'
        elif res.inconclusive:
            out['verdict'] = 'inconclusive'
        else:
            out['verdict'] = 'holds-within-bound'
    except BaseException as e:  # noqa
        out['verdict'] = 'error'
        out['error'] = ''.join(traceback.format_exception(
            type(e), e, e.__traceback__))[-4000:]
        out.setdefault('functions', describe(ob.functions))
    out['wall_s'] = round(time.time() - t0, 2)
    return out


def dumps(o):
    return json.dumps(o, indent=1, sort_keys=True, default=_default)


def _default(o):
    try:
        return o.to_json()
    except Exception:
        return repr(o)


# ----------------------------------------------------------------------
# case-driven symx obligations
# ----------------------------------------------------------------------
class Case(object):
    def __init__(self, name, fn, needed=(), max_paths=200000, timeout_s=None,
                 replay=None, shard_depth=0, procs=8):
        self.name = name
        self.fn = fn
        self.needed = list(needed)
        self.max_paths = max_paths
        self.timeout_s = timeout_s
        self.strong_replay = replay   # optional: fn(model) -> (bool, text)
        self.shard_depth = shard_depth
        self.procs = procs


def _wrap(fn):
    """Exceptions escaping the real code inside a case are violations
    (label 'exception:<Type>') unless the harness handles them."""
    from vt import symx

    def run():
        try:
            fn()
        except (symx.PathAbort, symx.Budget, symx.HarnessError):
            raise
        except Exception as e:  # noqa
            tb = traceback.extract_tb(e.__traceback__)
            where = ['%s:%s:%s' % (os.path.relpath(f.filename, REPO)
                                   if f.filename.startswith(REPO)
                                   else os.path.basename(f.filename),
                                   f.lineno, f.name) for f in tb[-4:]]
            symx.check(False, 'exception:%s' % type(e).__name__,
                       {'message': str(e)[:300], 'where': where})
    return run


def signature_of(oid, case, v):
    info = v.get('info') or {}
    return info.get('signature') or '%s:%s:%s' % (oid, case, v['label'])


_CASES = None


def _case_worker(args):
    idx, oid, tmo = args
    from vt import symx
    symx._CUR = None
    case = _CASES[idx]
    case.shard_depth = 0          # pool workers cannot fork again
    r = Result()
    _drive_one(oid, case, r, tmo)
    return r.to_json()


def _drive_one(oid, case, res, tmo):
    from vt import symx
    fn = _wrap(case.fn)
    sm = explore_case(case, fn, tmo)
    n0 = len(res.violations)
    res.add_summary(sm, case=case.name, needed=case.needed)
    if sm.get('shards'):
        res.notes.append('%s: %d shards' % (case.name, sm['shards']))
    # the reachability witnesses are replayed concretely: the real code is
    # driven along the witness path with the solver's values
    for label, model in list((sm.get('witness_models') or {}).items())[:2]:
        ce = symx.ConcreteEngine(model)
        try:
            ce.run(fn)
            ok = label in ce.witnesses
        except BaseException as e:  # noqa
            ok = False
        res.replays += 1
        if not ok:
            res.inconclusive.append(
                '%s: witness %s did not replay concretely' % (case.name,
                                                              label))
    seen = set()
    for v in res.violations[n0:]:
        v['signature'] = signature_of(oid, case.name, v)
        key = (v['signature'], v['label'])
        if key in seen:
            v['duplicate'] = True
            continue
        seen.add(key)
        ce = symx.ConcreteEngine(v['model'])
        try:
            ce.run(fn)
            v['reproduced'] = v['label'] in ce.failed
            v['replay_failed_labels'] = ce.failed[:5]
        except BaseException as e:  # noqa
            v['reproduced'] = False
            v['replay_error'] = repr(e)[:300]
        res.replays += 1
        if v['reproduced'] and case.strong_replay is not None:
            try:
                if len(inspect.signature(
                        case.strong_replay).parameters) >= 2:
                    ok, text = case.strong_replay(v['model'], v)
                else:
                    ok, text = case.strong_replay(v['model'])
                v['strong_replay'] = {'reproduced': bool(ok), 'text': text}
                if not ok:
                    v['reproduced'] = False
            except BaseException as e:  # noqa
                v['strong_replay'] = {'reproduced': False,
                                      'text': repr(e)[:300]}
                v['reproduced'] = False
    res.violations[n0:] = [v for v in res.violations[n0:]
                           if not v.get('duplicate')]
    for v in res.violations[n0:]:
        # keep evidence small / picklable
        info = v.get('info') or {}
        for k in list(info):
            if callable(info[k]):
                info.pop(k)


def drive_cases(oid, cases, res=None, budget_s=None, procs=14):
    """Explore every case with symx; replay every model concretely.  Cases
    without their own sharding run in parallel (fork pool)."""
    global _CASES
    res = res or Result()
    cases = list(cases)
    t_end = time.time() + budget_s if budget_s else None
    par = [c for c in cases if not c.shard_depth]
    seq = [c for c in cases if c.shard_depth]
    if len(par) > 1:
        import multiprocessing
        _CASES = par
        ctx = multiprocessing.get_context('fork')
        jobs = [(i, oid, min(c.timeout_s, budget_s) if c.timeout_s and
                 budget_s else (c.timeout_s or budget_s))
                for i, c in enumerate(par)]
        with ctx.Pool(min(procs, len(jobs))) as pool:
            outs = pool.map(_case_worker, jobs, chunksize=1)
        for o in outs:
            _merge_result(res, o)
    else:
        seq = par + seq
    for case in seq:
        tmo = case.timeout_s
        if t_end is not None:
            left = t_end - time.time()
            if left <= 0:
                res.inconclusive.append('%s: obligation budget exhausted '
                                        'before case' % case.name)
                res.exhaustive = False
                continue
            tmo = min(tmo, left) if tmo else left
        _drive_one(oid, case, res, tmo)
    return res


def _merge_result(res, o):
    for k in ('paths', 'queries', 'solver_s', 'checks', 'checks_unsat',
              'cases', 'replays'):
        setattr(res, k, getattr(res, k) + o[k])
    res.exhaustive = res.exhaustive and o['exhaustive']
    res.inconclusive += o['inconclusive']
    res.violations += o['violations']
    res.notes += o['notes']
    for k in ('witnesses_needed', 'witnesses_found'):
        for w in o[k]:
            if w not in getattr(res, k):
                getattr(res, k).append(w)
    for s_ in o['samples']:
        if len(res.samples) < 4:
            res.samples.append(s_)


def replay_case(cases, case_name, model):
    from vt import symx
    for case in cases:
        if case.name == case_name:
            ce = symx.ConcreteEngine(model)
            ce.run(_wrap(case.fn))
            return ce.failed
    raise KeyError(case_name)


def run_strong_test(name, timeout=300, env_extra=None):
    """Strong replay through the repo's own test fixtures (real db-api on
    sqlite / real engine): runs /verif/strong/<name> with pytest from /repo.
    Returns (reproduced, text): reproduced = the test FAILED (the test
    asserts the property)."""
    import subprocess
    path = os.path.join(VERIF, 'strong', name)
    env = dict(os.environ)
    env.update(env_extra or {})
    env.pop('PYTHONPATH', None)
    os.makedirs(os.path.join(VERIF, 'work'), exist_ok=True)
    logp = os.path.join(VERIF, 'work', 'strong-%s-%d.log'
                        % (name.replace('/', '_'), os.getpid()))
    # output goes to a file: engine fixtures leave non-daemon threads that
    # would keep a pipe open after the test has finished
    with open(logp, 'wb') as logf:
        try:
            subprocess.run(
                ['timeout', '-s', 'KILL', str(timeout), '/venv/bin/python',
                 '-m', 'pytest', '-q', '-p', 'no:cacheprovider', '-x', '-s',
                 path],
                cwd=REPO, env=env, stdout=logf, stderr=subprocess.STDOUT,
                timeout=timeout + 30)
        except subprocess.TimeoutExpired:
            pass
    with open(logp, 'rb') as f:
        out = f.read().decode('utf8', 'replace')
    try:
        os.unlink(logp)
    except OSError:
        pass
    tail = '\n'.join(l for l in out.splitlines()
                     if 'STRONG' in l or 'passed' in l or 'failed' in l
                     or 'AssertionError' in l)[-1500:]
    if 'STRONG-VIOLATION' in out:
        return True, tail
    if ' passed' in out:
        return False, tail
    return False, 'strong replay inconclusive: ' + out[-800:]
