"""C10 - pause creates no new tasks; resume continues to the same result."""
from vt import symx, shapes, scenario
from vt.kit import obligation, Case, boot
from vt.symx import (fresh_bool, check, reach, note, choice, assume)
from vt.harness import C01


def _c10_e_case(shape, text, preemptions, max_step, use_cmd=False,
                early_resume=False):
    spec = C01.parse(text)

    def case():
        sig = 'C10.E:%s' % shape
        w, start = scenario.make(text, sig, preemptions,
                                 C01.FIXED_GUARDS.get(shape))
        with w:
            ex, wid = start()
            st = {'paused_at': None, 'tasks_at_pause': None}

            def pause(ex_, w_):
                r, errs = ex_.operator('pause_workflow', wid)
                row = w_.wf_ex(wid)
                if row['state'] == 'PAUSED':
                    reach('paused')
                    st['tasks_at_pause'] = {t['id'] for t in w_.tasks(wid)}

            def resume(ex_, w_):
                row = w_.wf_ex(wid)
                if row['state'] == 'PAUSED':
                    # everything in flight has been delivered: nothing new
                    # appeared while paused, and results were recorded
                    now = {t['id'] for t in w_.tasks(wid)}
                    if st['tasks_at_pause'] is not None:
                        check(now == st['tasks_at_pause'],
                              'task-created-while-paused',
                              {'signature': sig + ':created-while-paused',
                               'trace': ex_.trace[-25:]})
                    reach('resumed-from-pause')
                    ex_.operator('resume_workflow', wid)
            ops = []
            if not use_cmd:
                p = choice('pause_at', list(range(0, max_step + 1)))
                ops.append([p, pause])
                if early_resume:
                    # the resume arrives while messages sent before the
                    # pause are still in flight
                    q = choice('resume_at', list(range(p, max_step + 1)))
                    ops.append([q, resume])
            # drain everything (the run goes quiet while paused) ...
            scenario.run_with_ops(ex, w, ops)
            # ... then resume and drain again
            resume(ex, w)
            scenario.run_with_ops(ex, w, [])
            reach('quiescent')
            inf = scenario.final_check(ex, w, wid, spec, sig,
                                       ignore_pause=True)
            if not ex.taint:
                for t in w.tasks(wid):
                    n = len(w.actions(t['id']))
                    check(n <= 1, 'action-dispatched-twice',
                          dict(inf('action-twice'), task=t['name'], n=n))
    return case


@obligation(
    'C10.E', engine='symx+world(minidb)',
    functions=['mistral.engine.default_engine:DefaultEngine.pause_workflow',
               'mistral.engine.default_engine:DefaultEngine.resume_workflow',
               'mistral.engine.workflow_handler:pause_workflow',
               'mistral.engine.workflow_handler:resume_workflow',
               'mistral.engine.workflows:Workflow.pause',
               'mistral.engine.workflows:Workflow.resume',
               'mistral.engine.workflows:Workflow._continue_workflow',
               'mistral.engine.dispatcher:_process_commands',
               'mistral.engine.dispatcher:_save_command_to_backlog',
               'mistral.engine.dispatcher:_poll_commands_from_backlog',
               'mistral.workflow.commands:restore_command_from_dict',
               'mistral.workflow.direct_workflow:'
               'DirectWorkflowController._find_next_commands',
               'mistral.engine.tasks:Task.complete'],
    bounds={'quick': 'shapes fork_join, join_2_of_3_mixed, error_routes, '
                     'chain, conditional and the pause engine command in '
                     'front of a join; pause issued before any of the first '
                     '10 deliveries (symbolic position), all in-flight work '
                     'is then delivered, then resume (variant: the resume '
                     'follows at any later point, with messages still in '
                     'flight); outcomes / guards '
                     'symbolic; FIFO order',
            'thorough': 'pause position over the first 16 deliveries, <= 1 '
                        'out-of-order delivery'},
    stubs=['minidb', 'QueueRPC', 'FakeScheduler', 'FakeExecutor',
           'post-commit queue inline', 'expr_stub for guards'],
    outside='pause of sub-workflow trees (C09/C11 shapes), with-items and '
            'retries in flight',
    timeout=(400, 2400))
def c10_e(ctx):
    """while PAUSED no task execution is created (results of running actions
    are still recorded); after resume the run finishes with exactly the
    final state and tasks an unpaused run has"""
    boot()
    ms = ctx.pick(10, 16)
    k = ctx.pick(0, 1)
    for shape in ('fork_join', 'join_2_of_3_mixed', 'error_routes',
                  'conditional'):
        yield Case(shape, _c10_e_case(shape, shapes.RUN_SHAPES[shape], k, ms),
                   needed=['paused', 'resumed-from-pause', 'quiescent'],
                   replay=_strong_pause_before_join
                   if shape == 'fork_join' else None)
    yield Case('chain', _c10_e_case('chain', shapes.CHAIN, k, ms),
               needed=['paused', 'resumed-from-pause', 'quiescent'])
    for shape in ('fork_join', 'error_routes'):
        yield Case(shape + '/early-resume',
                   _c10_e_case(shape, shapes.RUN_SHAPES[shape], 0,
                               min(ms, 8), early_resume=True),
                   needed=['paused', 'resumed-from-pause', 'quiescent'])
    yield Case('pause_cmd_join',
               _c10_e_case('pause_cmd_join', shapes.PAUSE_CMD_JOIN, k, ms,
                           use_cmd=True),
               needed=['resumed-from-pause', 'quiescent'],
               replay=_strong_pause_join)


def _strong_pause_before_join(model, v):
    from vt import kit
    if not (v.get('signature') or '').endswith(':final-state'):
        return True, 'n/a'
    return kit.run_strong_test('test_c10_pause_before_join.py', timeout=60)


def _strong_pause_join(model, v):
    from vt import kit
    if not (v.get('signature') or '').endswith(':task-twice'):
        return True, 'n/a'
    return kit.run_strong_test('test_c10_pause_cmd_join.py', timeout=60)


# ---------------------------------------------------------------------------
# C10.T  pause / resume inside a tree of executions
# ---------------------------------------------------------------------------
TREE_ITEMS = """
version: '2.0'
parent:
  tasks:
    p1:
      with-items: i in [0, 1]
      workflow: child
      on-success: p2
    p2:
      action: std.noop
child:
  tasks:
    c1:
      action: std.noop
      on-success: c2
    c2:
      action: std.noop
"""

TREE_TWO = """
version: '2.0'
parent:
  tasks:
    pa:
      workflow: child
      on-success: pj
    pb:
      workflow: child
      on-success: pj
    pj:
      join: all
      action: std.noop
child:
  tasks:
    c1:
      action: std.noop
      on-success: c2
    c2:
      action: std.noop
"""


def _c10_tree_case(shape, text, n_ops, max_step, preemptions, root_ops):
    """Operator commands (pause / resume, each addressed to the root or to
    one of the two sub-workflows) at solver-chosen points.

    Oracle.  An execution the operator paused and that nobody (neither a
    command addressed to it nor one addressed to an ancestor) resumed is
    still PAUSED when everything in flight has been delivered, and so is
    every ancestor of it; no task is created in a PAUSED execution
    (Explorer invariant); after resuming what is still paused the tree
    finishes exactly like an unpaused run."""
    def case():
        from vt.world import World
        from vt.explorer import Explorer
        from mistral_lib import actions as ml
        sig = 'C10.T:%s' % shape
        w = World([text])
        with w:
            ex = Explorer(w, sig, preemptions=preemptions)
            ex.result_for = lambda ev: ml.Result(data='ok')
            wid = w.start('parent')
            ex.check_invariants()
            held = set()          # executions the operator wants paused

            def kids():
                out = {}
                for x in w.rows('WorkflowExecution'):
                    pt = x['task_execution_id']
                    if not pt:
                        continue
                    t = [t_ for t_ in w.rows('TaskExecution')
                         if t_['id'] == pt][0]
                    key = (t['name'], (x['runtime_context'] or {})
                           .get('index', 0))
                    out[key] = x['id']
                return [out[k] for k in sorted(out)]

            def mk_op(i):
                # (a resume as the first command finds nothing paused)
                what = choice('op%d' % i, ['pause', 'resume']) if i else \
                    'pause'
                tgt = choice('target%d' % i, (['root'] if root_ops else [])
                             + ['kid0', 'kid1'])

                def op(ex_, w_):
                    ks = kids()
                    if tgt == 'root':
                        xid = wid
                    else:
                        n = int(tgt[-1])
                        if len(ks) <= n:
                            return
                        xid = ks[n]
                    row = w_.wf_ex(xid)
                    if what == 'pause':
                        if row['state'] == 'PAUSED':
                            # already paused through a cascade: the request
                            # is acknowledged all the same - from now on
                            # only a resume addressed to this execution (or
                            # an ancestor) may release it
                            ex_.operator('pause_workflow', xid)
                            held.add(xid)
                            reach('paused-twice')
                            return
                        if row['state'] != 'RUNNING':
                            return
                        r, errs = ex_.operator('pause_workflow', xid)
                        if w_.wf_ex(xid)['state'] == 'PAUSED':
                            held.add(xid)
                            reach('paused-' + ('root' if xid == wid
                                               else 'kid'))
                    else:
                        if row['state'] != 'PAUSED':
                            return
                        if xid != wid and wid in held:
                            # the operator paused the root and now resumes a
                            # child: the engine resumes the parent as well;
                            # the property does not say what should happen
                            # (outside the claim)
                            raise symx.PathAbort()
                        ex_.operator('resume_workflow', xid)
                        reach('resumed-' + ('root' if xid == wid
                                            else 'kid'))
                        held.discard(xid)
                        if xid == wid:
                            # a resume of the root releases the whole tree
                            held.clear()
                return op
            real_deliver = ex.deliver

            def deliver(ev, *a, **k):
                real_deliver(ev, *a, **k)
                # an execution the operator holds paused leaves PAUSED only
                # through a resume addressed to it or to an ancestor
                for xid in sorted(held):
                    row = w.wf_ex(xid)
                    check(row['state'] == 'PAUSED',
                          'paused-execution-resumed-by-nobody',
                          {'signature': sig + ':released',
                           'wf': row['workflow_name'], 'state': row['state'],
                           'trace': ex.trace[-25:]})
            ex.deliver = deliver
            ops = []
            last = 1
            for i in range(n_ops):
                # (positions in non-decreasing order: commands issued at the
                # same point run in the order listed)
                at = choice('at%d' % i, list(range(last, max_step + 1)))
                last = at
                ops.append([at, mk_op(i)])
            scenario.run_with_ops(ex, w, ops)
            reach('at-rest')
            info = {'trace': ex.trace[-40:],
                    'states': [(x['workflow_name'], x['state'])
                               for x in w.rows('WorkflowExecution')]}
            for xid in sorted(held):
                row = w.wf_ex(xid)
                if row['state'] in ('SUCCESS', 'ERROR', 'CANCELLED'):
                    continue
                reach('held-at-rest')
                check(row['state'] == 'PAUSED',
                      'paused-execution-resumed-by-nobody',
                      dict(info, signature=sig + ':released',
                           wf=row['workflow_name']))
                if xid != wid:
                    check(w.wf_ex(wid)['state'] == 'PAUSED',
                          'parent-runs-while-a-child-is-paused',
                          dict(info, signature=sig + ':parent-running'))
            # release everything that is still paused, top down
            held.clear()
            for _ in range(4):
                paused = [x for x in w.rows('WorkflowExecution')
                          if x['state'] == 'PAUSED']
                if not paused:
                    break
                roots = [x for x in paused if not x['task_execution_id']]
                tgt_ = (roots or paused)[0]
                ex.operator('resume_workflow', tgt_['id'])
                scenario.run_with_ops(ex, w, [])
            reach('finished')
            rows = w.rows('WorkflowExecution')
            info = {'trace': ex.trace[-40:],
                    'states': [(x['workflow_name'], x['state'])
                               for x in rows]}
            check(len(rows) == 3 and all(x['state'] == 'SUCCESS'
                                         for x in rows),
                  'tree-does-not-finish-like-an-unpaused-run',
                  dict(info, signature=sig + ':final'))
            names = sorted(t['name'] for t in w.rows('TaskExecution'))
            want = sorted(['c1', 'c2'] * 2 + (
                ['p1', 'p2'] if shape == 'items' else ['pa', 'pb', 'pj']))
            check(names == want, 'tasks-differ-from-an-unpaused-run',
                  dict(info, signature=sig + ':tasks', got=names))
    return case


@obligation(
    'C10.T', engine='symx+world(minidb)',
    functions=['mistral.engine.workflow_handler:pause_workflow',
               'mistral.engine.workflow_handler:resume_workflow',
               'mistral.engine.task_handler:_on_action_update',
               'mistral.engine.task_handler:schedule_on_action_update',
               'mistral.engine.tasks:Task.update',
               'mistral.engine.tasks:RegularTask.on_action_update',
               'mistral.engine.tasks:WithItemsTask.on_action_update',
               'mistral.engine.actions:WorkflowAction.update',
               'mistral.engine.workflows:Workflow.pause',
               'mistral.engine.workflows:Workflow.resume'],
    bounds={'quick': 'a parent with a with-items task over two '
                     'sub-workflows, and a parent with two sub-workflow '
                     'tasks feeding a join; 3 operator commands (pause / '
                     'resume, each addressed to one of the two '
                     'sub-workflows; 2 commands when the root may be '
                     'addressed too) at solver-chosen positions among the '
                     'first 7 deliveries (the first command is a pause); all '
                     'actions succeed; FIFO',
            'thorough': 'positions among the first 12 deliveries, <= 1 '
                        'out-of-order delivery'},
    stubs=['minidb', 'QueueRPC', 'FakeScheduler', 'FakeExecutor',
           'post-commit queue inline'],
    outside='deeper trees; failing actions; a root-level pause combined with '
            'a resume addressed to a child (the engine resumes the parent '
            'then; the property does not say what should happen)',
    timeout=(500, 2400))
def c10_t(ctx):
    """a sub-workflow the operator paused stays PAUSED - and keeps its
    parent PAUSED - until a resume is addressed to it or to an ancestor; no
    task appears in a PAUSED execution; after the release the tree finishes
    like an unpaused run"""
    boot()
    ms = ctx.pick(7, 12)
    k = ctx.pick(0, 1)
    for shape, text in (('items', TREE_ITEMS), ('two', TREE_TWO)):
        yield Case('%s/kids' % shape,
                   _c10_tree_case(shape, text, 3, ms, k, False),
                   needed=['at-rest', 'held-at-rest', 'paused-kid',
                           'resumed-kid', 'finished'],
                   shard_depth=7, procs=14, max_paths=2000000,
                   replay=_strong_tree if shape == 'items' else None)
        yield Case('%s/root' % shape,
                   _c10_tree_case(shape, text, 2, ms, k, True),
                   needed=['at-rest', 'paused-root', 'finished'],
                   shard_depth=6, procs=14, max_paths=2000000)


def _strong_tree(model, v):
    """F29 through the real engine (real scheduler threads, sqlite)"""
    from vt import kit
    if not (v.get('signature') or '').endswith((':tasks', ':final')):
        return True, 'n/a'
    return kit.run_strong_test('test_c10_withitems_subwf_resume.py',
                               timeout=120)


# ---------------------------------------------------------------------------
# C10.W  pause / resume while a with-items task or a retry is in flight
# ---------------------------------------------------------------------------
PAUSE_ITEMS = """
version: '2.0'
wf:
  output:
    res: <% $.get(res, none) %>
  tasks:
    t:
      with-items: i in [0, 1, 2]
@@CONC@@
      action: std.echo output=<% $.i %>
      publish:
        res: <% task().result %>
      on-success: after
    after:
      action: std.noop
"""

PAUSE_RETRY = """
version: '2.0'
wf:
  tasks:
    t:
      action: std.noop
      retry:
        count: 2
        delay: 1
      wait-after: 1
      on-success: after
      on-error: failed
    after:
      action: std.noop
    failed:
      action: std.noop
"""


def _c10_w_case(kind, conc, max_step, preemptions):
    def case():
        from vt.world import World
        from vt.explorer import Explorer
        from mistral_lib import actions as ml
        if kind == 'items':
            line = '      concurrency: %d' % conc if conc else ''
            text = PAUSE_ITEMS.replace('@@CONC@@', line)
        else:
            text = PAUSE_RETRY
        sig = 'C10.W:%s%s' % (kind, conc or '')
        w = World([text])
        with w:
            ex = Explorer(w, sig, preemptions=preemptions)
            ex.rerun_allowed = True
            st = {'n': 0}

            def result_for(ev):
                tid = ev.payload['exec_ctx'].get('task_execution_id')
                trow = [t for t in w.rows('TaskExecution')
                        if t['id'] == tid][0]
                if trow['name'] != 't':
                    return ml.Result(data='ok')
                if kind == 'items':
                    me = [a for a in w.rows('ActionExecution')
                          if a['id'] == ev.payload['id']][0]
                    i = (me['runtime_context'] or {}).get('index')
                    return ml.Result(data='r%s' % i)
                k = len([a for a in w.actions(tid)
                         if a['id'] != ev.payload['id']
                         and a['state'] != 'RUNNING'])
                out = ex.outcome('attempt%d' % k)
                return ml.Result(data='ok') if out == 'SUCCESS' \
                    else ml.Result(error='boom')
            ex.result_for = result_for
            wid = w.start('wf')
            ex.check_invariants()
            held = {}

            def pause(ex_, w_):
                if w_.wf_ex(wid)['state'] != 'RUNNING':
                    return
                ex_.operator('pause_workflow', wid)
                if w_.wf_ex(wid)['state'] == 'PAUSED':
                    reach('paused')
                    held['tasks'] = {t['id'] for t in w_.tasks(wid)}
            at = choice('pause_at', list(range(0, max_step + 1)))
            scenario.run_with_ops(ex, w, [[at, pause]])
            if 'tasks' in held and w.wf_ex(wid)['state'] == 'PAUSED':
                now = {t['id'] for t in w.tasks(wid)}
                check(now == held['tasks'], 'task-created-while-paused',
                      {'signature': sig + ':created-while-paused',
                       'trace': ex.trace[-25:]})
                reach('resumed-from-pause')
                ex.operator('resume_workflow', wid)
                scenario.run_with_ops(ex, w, [])
            reach('quiescent')
            t = w.task('t', wid)
            wf = w.wf_ex(wid)
            acts = w.actions(t['id'])
            info = {'trace': ex.trace[-35:], 'task': t['state'],
                    'wf': wf['state'], 'outcomes': dict(ex.outcomes)}
            if kind == 'items':
                per = {}
                for a in acts:
                    i = a['runtime_context']['index']
                    per[i] = per.get(i, 0) + 1
                check(wf['state'] == 'SUCCESS' and t['state'] == 'SUCCESS'
                      and w.task('after', wid) is not None,
                      'run-does-not-finish-like-an-unpaused-run',
                      dict(info, signature=sig + ':final'))
                check(per == {0: 1, 1: 1, 2: 1},
                      'item-execution-count-differs-from-unpaused-run',
                      dict(info, signature=sig + ':items', per=per))
                check((wf['output'] or {}).get('res') == ['r0', 'r1', 'r2'],
                      'output-differs-from-unpaused-run',
                      dict(info, signature=sig + ':output',
                           output=wf['output']))
            else:
                outs = [ex.outcomes.get('attempt%d' % k) for k in range(3)]
                n_att = 3
                for k, o in enumerate(outs):
                    if o == 'SUCCESS':
                        n_att = k + 1
                        break
                want = 'SUCCESS' if 'SUCCESS' in outs[:n_att] else 'ERROR'
                check(len(acts) == n_att, 'attempt-count-differs-from-'
                      'unpaused-run',
                      dict(info, signature=sig + ':attempts',
                           n=len(acts), want=n_att))
                check(t['state'] == want and
                      w.task('after' if want == 'SUCCESS' else 'failed',
                             wid) is not None and
                      wf['state'] == 'SUCCESS',
                      'run-does-not-finish-like-an-unpaused-run',
                      dict(info, signature=sig + ':final', want=want))
    return case


@obligation(
    'C10.W', engine='symx+world(minidb)',
    functions=['mistral.engine.workflows:Workflow.pause',
               'mistral.engine.workflows:Workflow.resume',
               'mistral.engine.tasks:WithItemsTask.on_action_complete',
               'mistral.engine.tasks:WithItemsTask._schedule_actions',
               'mistral.engine.policies:RetryPolicy.after_task_complete',
               'mistral.engine.policies:WaitAfterPolicy.after_task_complete',
               'mistral.engine.policies:_continue_task',
               'mistral.engine.policies:_complete_task'],
    bounds={'quick': 'a with-items task (3 items; no concurrency, '
                     'concurrency 1, 2) and a task with retry (count 2) + '
                     'wait-after whose attempt outcomes are symbolic; the '
                     'pause is issued before any of the first 12 deliveries '
                     '(solver choice), everything in flight is delivered, '
                     'then resume; FIFO',
            'thorough': 'first 18 deliveries, <= 1 out-of-order delivery'},
    stubs=['minidb', 'QueueRPC', 'FakeScheduler (timers are events)',
           'FakeExecutor', 'post-commit queue inline', 'real YAQL'],
    outside='failing items; with-items over sub-workflows (C10.T)',
    timeout=(400, 2400))
def c10_w(ctx):
    """while PAUSED no new task appears (remaining items and retries of the
    existing task may proceed); after resume the run finishes like an
    unpaused one: every item once with ordered results / the same number of
    attempts and the same route"""
    boot()
    ms = ctx.pick(12, 18)
    k = ctx.pick(0, 1)
    for conc in (0, 1, 2):
        yield Case('items/conc%d' % conc, _c10_w_case('items', conc, ms, k),
                   needed=['paused', 'resumed-from-pause', 'quiescent'])
    yield Case('retry', _c10_w_case('retry', 0, ms, k),
               needed=['paused', 'resumed-from-pause', 'quiescent'])
