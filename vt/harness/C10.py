"""C10 - pause creates no new tasks; resume continues to the same result."""
from vt import symx, shapes, scenario
from vt.kit import obligation, Case, boot
from vt.symx import (fresh_bool, check, reach, note, choice, assume)
from vt.harness import C01


def _c10_e_case(shape, text, preemptions, max_step, use_cmd=False):
    spec = C01.parse(text)

    def case():
        sig = 'C10.E:%s' % shape
        w, start = scenario.make(text, sig, preemptions,
                                 C01.FIXED_GUARDS.get(shape))
        with w:
            ex, wid = start()
            st = {'paused_at': None, 'tasks_at_pause': None}

            def pause(ex_, w_):
                r, errs = ex_.operator('pause_workflow', wid)
                row = w_.wf_ex(wid)
                if row['state'] == 'PAUSED':
                    reach('paused')
                    st['tasks_at_pause'] = {t['id'] for t in w_.tasks(wid)}

            def resume(ex_, w_):
                row = w_.wf_ex(wid)
                if row['state'] == 'PAUSED':
                    # everything in flight has been delivered: nothing new
                    # appeared while paused, and results were recorded
                    now = {t['id'] for t in w_.tasks(wid)}
                    if st['tasks_at_pause'] is not None:
                        check(now == st['tasks_at_pause'],
                              'task-created-while-paused',
                              {'signature': sig + ':created-while-paused',
                               'trace': ex_.trace[-25:]})
                    reach('resumed-from-pause')
                    ex_.operator('resume_workflow', wid)
            ops = []
            if not use_cmd:
                p = choice('pause_at', list(range(0, max_step + 1)))
                ops.append([p, pause])
            # drain everything (the run goes quiet while paused) ...
            scenario.run_with_ops(ex, w, ops)
            # ... then resume and drain again
            resume(ex, w)
            scenario.run_with_ops(ex, w, [])
            reach('quiescent')
            scenario.final_check(ex, w, wid, spec, sig, ignore_pause=True)
    return case


@obligation(
    'C10.E', engine='symx+world(minidb)',
    functions=['mistral.engine.default_engine:DefaultEngine.pause_workflow',
               'mistral.engine.default_engine:DefaultEngine.resume_workflow',
               'mistral.engine.workflow_handler:pause_workflow',
               'mistral.engine.workflow_handler:resume_workflow',
               'mistral.engine.workflows:Workflow.pause',
               'mistral.engine.workflows:Workflow.resume',
               'mistral.engine.workflows:Workflow._continue_workflow',
               'mistral.engine.dispatcher:_process_commands',
               'mistral.engine.dispatcher:_save_command_to_backlog',
               'mistral.engine.dispatcher:_poll_commands_from_backlog',
               'mistral.workflow.commands:restore_command_from_dict',
               'mistral.workflow.direct_workflow:'
               'DirectWorkflowController._find_next_commands',
               'mistral.engine.tasks:Task.complete'],
    bounds={'quick': 'shapes fork_join, join_2_of_3_mixed, error_routes, '
                     'chain, conditional and the pause engine command in '
                     'front of a join; pause issued before any of the first '
                     '10 deliveries (symbolic position), all in-flight work '
                     'is then delivered, then resume; outcomes / guards '
                     'symbolic; FIFO order',
            'thorough': 'pause position over the first 16 deliveries, <= 1 '
                        'out-of-order delivery'},
    stubs=['minidb', 'QueueRPC', 'FakeScheduler', 'FakeExecutor',
           'post-commit queue inline', 'expr_stub for guards'],
    outside='pause of sub-workflow trees (C09/C11 shapes), with-items and '
            'retries in flight',
    timeout=(400, 2400))
def c10_e(ctx):
    """while PAUSED no task execution is created (results of running actions
    are still recorded); after resume the run finishes with exactly the
    final state and tasks an unpaused run has"""
    boot()
    ms = ctx.pick(10, 16)
    k = ctx.pick(0, 1)
    for shape in ('fork_join', 'join_2_of_3_mixed', 'error_routes',
                  'conditional'):
        yield Case(shape, _c10_e_case(shape, shapes.RUN_SHAPES[shape], k, ms),
                   needed=['paused', 'resumed-from-pause', 'quiescent'],
                   replay=_strong_pause_before_join
                   if shape == 'fork_join' else None)
    yield Case('chain', _c10_e_case('chain', shapes.CHAIN, k, ms),
               needed=['paused', 'resumed-from-pause', 'quiescent'])
    yield Case('pause_cmd_join',
               _c10_e_case('pause_cmd_join', shapes.PAUSE_CMD_JOIN, k, ms,
                           use_cmd=True),
               needed=['resumed-from-pause', 'quiescent'],
               replay=_strong_pause_join)


def _strong_pause_before_join(model, v):
    from vt import kit
    if not (v.get('signature') or '').endswith(':final-state'):
        return True, 'n/a'
    return kit.run_strong_test('test_c10_pause_before_join.py', timeout=60)


def _strong_pause_join(model, v):
    from vt import kit
    if not (v.get('signature') or '').endswith(':task-twice'):
        return True, 'n/a'
    return kit.run_strong_test('test_c10_pause_cmd_join.py', timeout=60)
