"""C17 - a cron trigger fires once per due time and never more than its
count."""
import datetime

from vt import symx, minidb, env
from vt.kit import obligation, Case, boot
from vt.symx import (fresh_int, fresh_bool, fresh_time, check, reach, note,
                     sym_and, sym_or, sym_not, implies, choice, assume)


def _wf_def(db, models, project='proj-a'):
    return db.put(models.WorkflowDefinition, id='wfdef-1', name='wf',
                  namespace='', definition='', spec={},
                  scope='private' if project == 'proj-a' else 'public',
                  project_id=project, is_system=False)


def _trigger(db, models, next_time, remaining, name='trig', tid='trig-1',
             project='proj-a', scope='private', pattern='* * * * *'):
    return db.put(models.CronTrigger, id=tid, name=name, pattern=pattern,
                  next_execution_time=next_time,
                  remaining_executions=remaining, workflow_name='wf',
                  workflow_id='wfdef-1', workflow_input={'x': 1},
                  workflow_params={'env': 'e'}, trust_id='trust-1',
                  scope=scope, project_id=project)


class _Cron(object):
    """croniter stub: an arbitrary time strictly after the start (its
    documented contract)."""

    def __init__(self, clock=None):
        self.calls = []
        self.clock = clock

    def __call__(self, pattern, start_time):
        t = fresh_time('cron_next')
        assume(t > start_time)
        self.calls.append((start_time, t, self.clock.readings[-1]
                           if self.clock and self.clock.readings else None))
        return t


@obligation(
    'C17.1', engine='sqlir+symx',
    functions=['mistral.services.triggers:get_next_cron_triggers',
               'mistral.db.v2.sqlalchemy.api:get_next_cron_triggers',
               'mistral.db.v2.sqlalchemy.api:update_cron_trigger'],
    bounds='one trigger row with symbolic next_execution_time, symbolic '
           'clock; CAS with a symbolic stale / fresh snapshot',
    stubs=['minidb', 'VClock'])
def c17_1(ctx):
    """due iff next_execution_time < now + 2s; the CAS update matches iff
    next_execution_time is unchanged"""
    boot()
    from mistral.db.v2.sqlalchemy import api as sa_api, models
    from mistral.services import triggers

    def case_due():
        clock = env.VClock()
        db = minidb.MiniDB()
        nxt = fresh_time('next')
        with minidb.installed(db), clock.installed():
            _wf_def(db, models)
            _trigger(db, models, nxt, None)
            rows = triggers.get_next_cron_triggers()
        now = clock.readings[-1]
        exp = nxt < now + datetime.timedelta(seconds=2)
        if len(rows) == 1:
            reach('due')
            check(exp, 'selected-not-due', {'signature': 'C17.1:not-due'})
        else:
            reach('not-due')
            check(sym_not(exp), 'due-not-selected',
                  {'signature': 'C17.1:due-missed'})
    yield Case('due-predicate', case_due, needed=['due', 'not-due'])

    def case_cas():
        db = minidb.MiniDB()
        cur = fresh_time('cur_next')
        snap = fresh_time('snapshot_next')
        new = fresh_time('new_next')
        with minidb.installed(db), env.auth_ctx('proj-a'):
            _wf_def(db, models)
            _trigger(db, models, cur, 3)
            _, n = sa_api.update_cron_trigger(
                'trig', {'next_execution_time': new,
                         'remaining_executions': 2},
                query_filter={'next_execution_time': snap})
        row = db.rows(models.CronTrigger)[0]
        if n == 1:
            reach('cas-hit')
            check(snap == cur, 'cas-hit-on-stale-snapshot',
                  {'signature': 'C17.1:cas-stale-hit'})
            check(row['next_execution_time'] == new, 'cas-value-not-written',
                  {'signature': 'C17.1:cas-not-written'})
        else:
            reach('cas-miss')
            check(sym_not(snap == cur), 'cas-miss-on-fresh-snapshot',
                  {'signature': 'C17.1:cas-fresh-miss'})
            check(row['next_execution_time'] == cur, 'cas-miss-wrote',
                  {'signature': 'C17.1:cas-miss-wrote'})
    yield Case('cas', case_cas, needed=['cas-hit', 'cas-miss'])


@obligation(
    'C17.2', engine='symx+minidb',
    functions=['mistral.services.periodic:advance_cron_trigger',
               'mistral.services.triggers:delete_cron_trigger',
               'mistral.db.v2.sqlalchemy.api:update_cron_trigger',
               'mistral.db.v2.sqlalchemy.api:delete_cron_trigger'],
    bounds='remaining_executions in {None} or symbolic >= 1 (the REST '
           'resource enforces minimum=1); symbolic next_execution_time and '
           'clock; trigger unchanged / changed / deleted by a concurrent '
           'processor before the step',
    stubs=['minidb', 'VClock', 'croniter_stub (arbitrary time strictly after '
           'its start argument)'])
def c17_2(ctx):
    """one advance step: a winner moves next_execution_time strictly forward
    past max(now, old), decrements the count by exactly one and deletes the
    trigger iff the count reaches 0; a loser changes nothing"""
    boot()
    from mistral.db.v2.sqlalchemy import api as sa_api, models
    from mistral.services import periodic, triggers

    def case():
        clock = env.VClock()
        db = minidb.MiniDB()
        cron = _Cron(clock)
        nxt = fresh_time('next')
        rem = None if fresh_bool('unlimited') else fresh_int('remaining', 1)
        concurrent = choice('concurrent', ['none', 'advanced', 'deleted'])
        with minidb.installed(db), clock.installed(), \
                env.patched(triggers, 'get_next_execution_time', cron), \
                env.auth_ctx('proj-a'):
            _wf_def(db, models)
            _trigger(db, models, nxt, rem)
            t = sa_api.get_next_cron_triggers(
                nxt + datetime.timedelta(seconds=1))[0]
            if concurrent == 'advanced':
                # what a concurrent winner leaves behind (it can only have
                # advanced, not deleted, if the count was >= 2)
                other = fresh_time('other_next')
                assume(other > nxt)
                rec = db.get(models.CronTrigger, 'trig-1')
                rec['next_execution_time'] = other
                if rem is not None:
                    assume(rem >= 2)
                    rec['remaining_executions'] = rem - 1
            elif concurrent == 'deleted':
                db.table(models.CronTrigger).clear()
            modified = periodic.advance_cron_trigger(t)
        rows = db.rows(models.CronTrigger)
        if concurrent != 'none':
            reach('lost-race')
            check(not modified, 'loser-reports-win',
                  {'signature': 'C17.2:loser-wins:%s' % concurrent})
            if concurrent == 'advanced':
                check(rows[0]['next_execution_time'] == other,
                      'loser-wrote', {'signature': 'C17.2:loser-wrote'})
                check(_same_rem(rows[0]['remaining_executions'],
                                None if rem is None else rem - 1),
                      'loser-changed-count',
                      {'signature': 'C17.2:loser-count'})
            return
        check(modified is True, 'winner-reports-loss',
              {'signature': 'C17.2:winner-loses'})
        now = cron.calls[0][2] if cron.calls else None
        if rem is not None and bool(rem == 1):
            reach('last-execution')
            check(len(rows) == 0, 'exhausted-trigger-not-removed',
                  {'signature': 'C17.2:not-removed'})
            return
        check(len(rows) == 1, 'live-trigger-removed',
              {'signature': 'C17.2:removed-early'})
        if not rows:
            return
        reach('advanced')
        new = rows[0]['next_execution_time']
        check(new > nxt, 'next-time-not-forward',
              {'signature': 'C17.2:not-forward'})
        if now is not None:
            check(new > now, 'next-time-in-the-past',
                  {'signature': 'C17.2:past'})
        if rem is None:
            check(rows[0]['remaining_executions'] is None,
                  'unlimited-got-count', {'signature': 'C17.2:count'})
        else:
            check(rows[0]['remaining_executions'] == rem - 1,
                  'count-not-decremented-by-one',
                  {'signature': 'C17.2:count'})
    yield Case('advance-step', case,
               needed=['lost-race', 'last-execution', 'advanced'])


def _same_rem(a, b):
    if a is None or b is None:
        return a is None and b is None
    return a == b


# ---------------------------------------------------------------------------
# C17.3  k processors racing over one trigger
# ---------------------------------------------------------------------------
class _Rpc(object):
    def __init__(self, acts, log):
        self.acts, self.log = acts, log

    def start_workflow(self, wf_name, wf_namespace, wf_ex_id, wf_input,
                       description='', **params):
        from mistral import context
        self.acts.hand_off('rpc-start')
        c = context.ctx() if context.has_ctx() else None
        self.log.append({'wf': wf_name, 'ns': wf_namespace,
                         'input': wf_input, 'params': params,
                         'ctx': c, 'who': self.acts.me().name
                         if self.acts.me() else None})


def _c17_3_case(n_proc, passes, crash_budget, count_mode, two_triggers=False):
    from vt import actors as A

    def case():
        from mistral.db.v2.sqlalchemy import api as sa_api, models
        from mistral.services import periodic, triggers, security
        from mistral.rpc import clients as rpc
        from mistral import context
        clock = env.VClock()
        db = minidb.MiniDB()
        cron = _Cron(clock)
        acts = A.Actors(max_steps=300, crash_budget=crash_budget)
        A.attach(db, acts)
        fired = []
        wins = []
        trusts = []
        nxt = fresh_time('next')
        if count_mode == 'unlimited':
            rem = None
        elif count_mode == 'sym':
            rem = fresh_int('remaining', 1, 3)
        else:
            rem = count_mode
        real_adv = periodic.advance_cron_trigger

        def adv(t):
            snap = t.next_execution_time
            ok = real_adv(t)
            if ok:
                wins.append((acts.me().name, t.id, snap))
            return ok

        def create_context(trust_id, project_id):
            acts.hand_off('create-context')
            trusts.append((trust_id, project_id))
            return context.MistralContext(user_id='trustee',
                                          project_id=project_id,
                                          auth_token='tok',
                                          is_trust_scoped=True,
                                          trust_id=trust_id)
        with minidb.installed(db), clock.installed(), \
                env.patched(triggers, 'get_next_execution_time', cron), \
                env.patched(periodic, 'advance_cron_trigger', adv), \
                env.patched(security, 'create_context', create_context), \
                env.patched(rpc, 'get_engine_client',
                            lambda: _Rpc(acts, fired)):
            # the workflow the trigger starts may be a PUBLIC definition of
            # another project: the run is still the trigger owner's
            owner = choice('wf_owner', ['proj-a', 'proj-w'])
            if owner != 'proj-a':
                reach('foreign-public-workflow')
            _wf_def(db, models, project=owner)
            _trigger(db, models, nxt, rem)
            if two_triggers:
                # same name in another project, public: must not be confused
                db.put(models.WorkflowDefinition, id='wfdef-2', name='wf2',
                       namespace='', definition='', spec={}, scope='public',
                       project_id='proj-b', is_system=False)
                db.put(models.CronTrigger, id='trig-2', name='trig',
                       pattern='* * * * *',
                       next_execution_time=fresh_time('next_b'),
                       remaining_executions=None, workflow_name='wf2',
                       workflow_id='wfdef-2', workflow_input={'y': 2},
                       workflow_params={}, trust_id='trust-2',
                       scope='public', project_id='proj-b')

            def proc():
                for _ in range(passes):
                    periodic.process_cron_triggers_v2(None, None)
            for i in range(n_proc):
                acts.spawn('P%d' % (i + 1), proc, may_crash=True)
            acts.run()
        note('schedule', acts.schedule_str())
        if acts.truncated:
            check(False, 'step-bound-too-small', {'signature': 'C17.3:bound'})
        crashed = [a.name for a in acts.actors if a.crashed]
        sig = 'C17.3:'
        mine = [w for w in wins if w[1] == 'trig-1']
        f1 = [f for f in fired if f['wf'] == 'wf']
        # one winner per due occurrence: winners' snapshots pairwise differ
        for i in range(len(mine)):
            for j in range(i + 1, len(mine)):
                reach('two-wins')
                check(sym_not(mine[i][2] == mine[j][2]),
                      'two-winners-for-one-occurrence',
                      {'signature': sig + 'double-win'})
        # a fire needs a win; without a crash every win fires
        check(len(f1) <= len(mine), 'fired-without-winning',
              {'signature': sig + 'fire-without-win'})
        if not crashed:
            check(len(f1) == len(mine), 'won-but-did-not-fire',
                  {'signature': sig + 'win-without-fire'})
        else:
            reach('crashed')
        if f1:
            reach('fired')
        # never more than the count; removed once exhausted
        rows = [r for r in db.rows(models.CronTrigger) if r['id'] == 'trig-1']
        if rem is not None:
            check(len(mine) <= rem, 'more-wins-than-count',
                  {'signature': sig + 'count-exceeded'})
            check(len(f1) <= rem, 'more-fires-than-count',
                  {'signature': sig + 'count-exceeded'})
            if bool(len(mine) == rem):
                reach('exhausted')
                check(len(rows) == 0, 'exhausted-trigger-remains',
                      {'signature': sig + 'not-removed'})
            else:
                check(len(rows) == 1, 'trigger-removed-early',
                      {'signature': sig + 'removed-early'})
                if rows:
                    check(rows[0]['remaining_executions'] == rem - len(mine),
                          'remaining-count-wrong',
                          {'signature': sig + 'remaining'})
        # time only moves forward
        if rows and mine:
            check(rows[0]['next_execution_time'] > nxt,
                  'next-time-did-not-advance',
                  {'signature': sig + 'not-forward'})
        # input / params / project of every fire
        for f in f1:
            check(f['input'] == {'x': 1} and f['params'] == {'env': 'e'}
                  and f['ns'] == '',
                  'fired-with-wrong-input', {'signature': sig + 'input'})
            c = f['ctx']
            check(c is not None and c.project_id == 'proj-a'
                  and c.trust_id == 'trust-1',
                  'fired-under-wrong-project',
                  {'signature': sig + 'project'})
        for f in fired:
            if f['wf'] == 'wf2':
                reach('other-fired')
                c = f['ctx']
                check(f['input'] == {'y': 2} and c.project_id == 'proj-b',
                      'other-trigger-mixed-up',
                      {'signature': sig + 'mixup'})
        # no context leaks out of the processor
        if two_triggers:
            b = [r for r in db.rows(models.CronTrigger)
                 if r['id'] == 'trig-2']
            check(len(b) == 1, 'foreign-trigger-deleted',
                  {'signature': sig + 'foreign-deleted'})
    return case


def _strong_collision(model, v=None):
    """real process_cron_triggers_v2 on real sqlite (with SQLite's
    reverse_unordered_selects testing pragma, which makes the unordered
    LIMIT 1 lookup return the other admissible row)"""
    from vt import kit
    if model.get('wf_owner'):
        # the strong test replays the name collision with the workflow
        # owned by the trigger's project only
        return True, 'no strong replay for a foreign public workflow'
    return kit.run_strong_test('test_c17_name_collision.py')


@obligation(
    'C17.3', engine='symx-actors+minidb',
    functions=['mistral.services.periodic:process_cron_triggers_v2',
               'mistral.services.periodic:advance_cron_trigger',
               'mistral.services.triggers:get_next_cron_triggers',
               'mistral.services.triggers:delete_cron_trigger',
               'mistral.db.v2.sqlalchemy.api:get_next_cron_triggers',
               'mistral.db.v2.sqlalchemy.api:update_cron_trigger',
               'mistral.db.v2.sqlalchemy.api:get_cron_trigger',
               'mistral.db.v2.sqlalchemy.api:delete_cron_trigger',
               'mistral.db.v2.sqlalchemy.api:_secure_query'],
    bounds={'quick': '2 processors x 1 pass over one trigger (count '
                     'symbolic in 1..3 or unlimited), every DB statement / '
                     'Keystone call / RPC a hand-off, all interleavings, '
                     'symbolic clock and cron pattern; plus a second trigger '
                     'of the same name (public, other project)',
            'thorough': '3 processors x 1 pass; 2 processors x 2 passes; 2 '
                        'processors with one crash at any hand-off'},
    stubs=['minidb', 'VClock', 'croniter_stub', 'security.create_context '
           '(Keystone) -> recording stub', 'rpc engine client -> recorder'],
    outside='more than 3 processors / 2 passes; Keystone; the engine side '
            'of start_workflow',
    timeout=(240, 1500))
def c17_3(ctx):
    """per due occurrence exactly one winner and at most one start_workflow
    with the trigger's input/params under the trigger's project; fires <=
    count; removed when exhausted; a crash loses at most that fire"""
    boot()
    if ctx.quick:
        yield Case('2p/sym-count', _c17_3_case(2, 1, 0, 'sym'),
                   needed=['fired', 'exhausted'], shard_depth=10, procs=8)
        yield Case('2p/unlimited', _c17_3_case(2, 1, 0, 'unlimited'),
                   needed=['fired'], shard_depth=10, procs=8)
        yield Case('1p/name-collision',
                   _c17_3_case(1, 1, 0, 'unlimited', two_triggers=True),
                   needed=['fired', 'other-fired'], replay=_strong_collision)
    else:
        yield Case('3p/sym-count', _c17_3_case(3, 1, 0, 'sym'),
                   needed=['fired', 'exhausted'], shard_depth=14, procs=14,
                   max_paths=2000000)
        yield Case('2p x2/sym-count', _c17_3_case(2, 2, 0, 'sym'),
                   needed=['fired', 'exhausted', 'two-wins'],
                   shard_depth=14, procs=14, max_paths=2000000)
        yield Case('2p/crash1', _c17_3_case(2, 1, 1, 'sym'),
                   needed=['fired', 'crashed'], shard_depth=14, procs=14,
                   max_paths=2000000)
        yield Case('1p x2/name-collision',
                   _c17_3_case(1, 2, 0, 'unlimited', two_triggers=True),
                   needed=['fired', 'other-fired'], shard_depth=8, procs=14,
                   replay=_strong_collision)
