"""C09 - a sub-workflow and its parent task stay consistent."""
from vt import symx, shapes, scenario
from vt.kit import obligation, Case, boot
from vt.symx import (fresh_bool, check, reach, note, choice, assume)

NEST = """
version: '2.0'
top:
  input:
    - who: world
  output:
    got: <% $.get(got, none) %>
    e: <% env().get(k, none) %>
  tasks:
    t1:
      workflow: mid
      input:
        a: <% $.who %>
        extra_param: 42
      publish:
        got: <% task().result %>
      on-success: done
      on-error: failed
    done:
      action: std.noop
    failed:
      action: std.noop
mid:
  input:
    - a
  output:
    mid_out: <% $.get(m, none) %>
    env_seen: <% env().get(k, none) %>
  tasks:
    m1:
      workflow: leaf
      publish:
        m: <% task().result %>
    m2:
      action: std.noop
leaf:
  output:
    leaf_out: <% env().get(k, none) %>
  tasks:
    l1:
      action: std.noop
"""

ITEMS = """
version: '2.0'
top:
  output:
    got: <% $.get(got, none) %>
  tasks:
    t1:
      with-items: i in [0, 1]
      workflow: leaf
      input:
        n: <% $.i %>
      publish:
        got: <% task().result %>
leaf:
  input:
    - n
  output:
    o: <% $.n %>
  tasks:
    l1:
      action: std.noop
"""

COLLIDE = """
version: '2.0'
top:
  tasks:
    t1:
      workflow: leaf
      input:
        @@KEY@@: hijacked
leaf:
  tasks:
    l1:
      action: std.noop
"""


def _tree(w):
    wfs = {x['id']: x for x in w.rows('WorkflowExecution')}
    tasks = {t['id']: t for t in w.rows('TaskExecution')}
    return wfs, tasks


def _c09_case(text, name, via_rpc, preemptions, env=None):
    def case():
        from vt.world import World
        from vt.explorer import Explorer
        from mistral_lib import actions as ml
        sig = 'C09.E:%s:%s' % (name, 'rpc' if via_rpc else 'inproc')
        w = World([text], conf={('engine', 'start_subworkflows_via_rpc'):
                                via_rpc})
        with w:
            ex = Explorer(w, sig, preemptions=preemptions)
            params = {'env': env} if env else {}
            wid = w.start('top', {}, **params)
            ex.check_invariants()
            ex.run()
            reach('quiescent')
            wfs, tasks = _tree(w)
            info = {'trace': ex.trace[-30:], 'outcomes': dict(ex.outcomes)}

            def inf(s, **kw):
                d = dict(info)
                d.update(kw)
                d['signature'] = sig + ':' + s
                return d
            root = wfs[wid]
            for x in wfs.values():
                pt = x['task_execution_id']
                if not pt:
                    continue
                reach('has-child')
                parent_task = tasks[pt]
                # parent task mirrors the child's final state
                check(x['state'] in ('SUCCESS', 'ERROR', 'CANCELLED'),
                      'child-not-finished', inf('child-unfinished'))
                if not (parent_task['spec'] or {}).get('with-items'):
                    check(parent_task['state'] == x['state'],
                          'parent-task-state-differs-from-child',
                          inf('parent-state', parent=parent_task['state'],
                              child=x['state']))
                # same root, caller's namespace, linked to the parent task
                check(x['root_execution_id'] == wid,
                      'root-execution-id-wrong',
                      inf('root', got=x['root_execution_id']))
                check((x['params'] or {}).get('namespace') ==
                      (root['params'] or {}).get('namespace'),
                      'namespace-not-propagated', inf('namespace'))
                # reported exactly once
                reports = [e for e in w.delivered + w.events
                           if e.kind == 'rpc'
                           and e.payload[0] == 'on_action_complete'
                           and e.payload[1][0] == x['id']]
                check(len(reports) == 1, 'child-reported-%d-times'
                      % len(reports), inf('report-count'))
            if name == 'nest':
                outs = ex.outcomes
                all_ok = all(v == 'SUCCESS' for v in outs.values())
                if all_ok:
                    reach('all-success')
                    check(root['state'] == 'SUCCESS',
                          'root-not-success', inf('root-state'))
                    check(root['output'].get('got') ==
                          {'mid_out': {'leaf_out': (env or {}).get('k')},
                           'env_seen': (env or {}).get('k')},
                          'parent-result-is-not-child-output',
                          inf('result', output=root['output']))
                    check(root['output'].get('e') == (env or {}).get('k'),
                          'env-not-root', inf('env'))
                    mid = [x for x in wfs.values()
                           if x['workflow_name'] == 'mid'][0]
                    check((mid['params'] or {}).get('extra_param') == 42 and
                          'extra_param' not in (mid['input'] or {}),
                          'undeclared-input-not-passed-as-param',
                          inf('undeclared', params=mid['params'],
                              input=mid['input']))
                if outs.get('l1') == 'ERROR':
                    reach('leaf-failed')
                    want = 'SUCCESS' if outs.get('failed') == 'SUCCESS' \
                        else 'ERROR'
                    check(root['state'] == want and
                          any(t['name'] == 'failed' for t in tasks.values()),
                          'error-not-propagated-up', inf('propagation'))
                names = [t['name'] for t in tasks.values()]
                check(names.count('done') + names.count('failed') == 1,
                      'parent-continued-%d-times' % (names.count('done')
                                                     + names.count('failed')),
                      inf('continued-once'))
            if name == 'items':
                kids = [x for x in wfs.values() if x['task_execution_id']]
                check(len(kids) == 2, 'not-one-child-per-item',
                      inf('items', n=len(kids)))
                idx = sorted((x['runtime_context'] or {}).get('index')
                             for x in kids)
                check(idx == [0, 1], 'child-indexes-wrong', inf('index'))
                if all(v == 'SUCCESS' for v in ex.outcomes.values()):
                    check(root['output'].get('got') == [{'o': 0}, {'o': 1}],
                          'with-items-subworkflow-results-wrong',
                          inf('items-result', output=root['output']))
    return case


NS_TOP = """
version: '2.0'
top:
  output:
    got: <% $.get(got, none) %>
  tasks:
    t1:
      workflow: mid
      publish:
        got: <% task().result %>
"""
NS_MID = """
version: '2.0'
mid:
  output:
    m: <% $.get(m, none) %>
  tasks:
    m1:
      workflow: leaf
      publish:
        m: <% task().result %>
"""
NS_LEAF = """
version: '2.0'
leaf:
  output:
    which: @@WHICH@@
  tasks:
    l1:
      action: std.noop
"""


def _ns_case(via_rpc):
    """definitions spread over the caller's namespace and the default one:
    every descendant records the CALLER's namespace and resolves its own
    sub-workflows there first"""
    def case():
        from vt.world import World
        from mistral_lib import actions as ml
        sig = 'C09.ns:%s' % ('rpc' if via_rpc else 'inproc')
        where = {}
        defs = []
        for name, text in (('top', NS_TOP), ('mid', NS_MID)):
            where[name] = choice('ns_' + name, ['ns', 'default'])
            defs.append((text, 'ns' if where[name] == 'ns' else ''))
        where['leaf'] = choice('ns_leaf', ['ns', 'default', 'both'])
        if where['leaf'] in ('ns', 'both'):
            defs.append((NS_LEAF.replace('@@WHICH@@', 'leaf_in_ns'), 'ns'))
        if where['leaf'] in ('default', 'both'):
            defs.append((NS_LEAF.replace('@@WHICH@@', 'leaf_in_default'),
                         ''))
        w = World(defs, conf={('engine', 'start_subworkflows_via_rpc'):
                              via_rpc})
        with w:
            wid = w.start('top', {}, wf_namespace='ns')
            assume(wid is not None)
            w.run(result_of=lambda ev: ml.Result(data='ok'))
            reach('ran')
            wfs, tasks = _tree(w)
            root = wfs[wid]
            info = {'where': where, 'signature': sig,
                    'executions': sorted(
                        (x['workflow_name'], x['state'],
                         (x['params'] or {}).get('namespace'),
                         x['workflow_namespace'])
                        for x in wfs.values())}

            def inf(s_, **kw):
                d = dict(info)
                d.update(kw)
                d['signature'] = sig + ':' + s_
                return d
            check(root['state'] == 'SUCCESS' and len(wfs) == 3,
                  'nested-run-did-not-finish', inf('final'))
            for x in wfs.values():
                check((x['params'] or {}).get('namespace') == 'ns',
                      'namespace-not-propagated',
                      inf('namespace', wf=x['workflow_name']))
                check(x['root_execution_id'] in (None, wid) and
                      (x['id'] == wid or x['root_execution_id'] == wid),
                      'root-execution-id-wrong', inf('root'))
            if where['mid'] == 'default':
                reach('fallback-to-default')
            want = 'leaf_in_ns' if where['leaf'] in ('ns', 'both') \
                else 'leaf_in_default'
            if where['leaf'] == 'both':
                reach('leaf-in-both')
            check(root['output'] == {'got': {'m': {'which': want}}},
                  'sub-workflow-resolved-in-the-wrong-namespace',
                  inf('resolution', output=root['output'], want=want))
    return case


WB_TMPL = """
version: '2.0'
name: @@WB@@
workflows:
  @@MAIN@@:
    output:
      got: <% $.get(got, none) %>
    tasks:
      t1:
        workflow: @@SUB@@
        publish:
          got: <% task().result %>
  @@SUB@@:
    output:
      which: in_workbook
    tasks:
      s1:
        action: std.noop
"""
GLOBAL_SUB = """
version: '2.0'
@@SUB@@:
  output:
    which: global
  tasks:
    g1:
      action: std.noop
"""


def _wb_case():
    """short sub-workflow names inside a workbook resolve to the member of
    the SAME workbook first (engine.utils.resolve_workflow_definition strips
    the parent's own name from '<workbook>.<workflow>'), whatever characters
    workbook and workflow names share"""
    def case():
        from vt.world import World
        from mistral_lib import actions as ml
        wb = choice('wb_name', ['wb', 'my.wb', 'fw', 'w', 'main', 'wb.'])
        main = choice('main_name', ['main', 'wf', 'w', 'b-w'])
        sub = choice('sub_name', ['sub', 'fw', 'bw', 'ma'])
        assume(main != sub)
        with_global = choice('global_sub', [True, False])
        sig = 'C09.wb'
        text = WB_TMPL.replace('@@WB@@', wb).replace(
            '@@MAIN@@', main).replace('@@SUB@@', sub)
        defs = [GLOBAL_SUB.replace('@@SUB@@', sub)] if with_global else []
        w = World(defs, workbooks=[text])
        with w:
            wid = w.start('%s.%s' % (wb, main))
            info = {'names': [wb, main, sub], 'global': with_global,
                    'errors': [repr(e)[:200] for m, e in w.errors]}
            check(wid is not None, 'workbook-workflow-not-started',
                  dict(info, signature=sig + ':start'))
            if wid is None:
                return
            w.run(result_of=lambda ev: ml.Result(data='ok'))
            reach('ran')
            if with_global:
                reach('global-namesake')
            root = w.wf_ex(wid)
            info['executions'] = sorted(
                (x['workflow_name'], x['state'])
                for x in w.rows('WorkflowExecution'))
            check(root['state'] == 'SUCCESS' and
                  root['output'] == {'got': {'which': 'in_workbook'}},
                  'short-name-not-resolved-inside-the-workbook',
                  dict(info, signature=sig + ':resolution',
                       output=root['output'], state=root['state']))
            kids = [x for x in w.rows('WorkflowExecution')
                    if x['task_execution_id']]
            check(len(kids) == 1 and
                  kids[0]['workflow_name'] == '%s.%s' % (wb, sub),
                  'wrong-sub-workflow-started',
                  dict(info, signature=sig + ':child'))
    return case


def _collide_case(key):
    def case():
        from vt.world import World
        sig = 'C09.3:%s' % key
        w = World([COLLIDE.replace('@@KEY@@', key)])
        with w:
            wid = w.start('top')
            w.run(max_events=60)
            reach('ran')
            wfs, tasks = _tree(w)
            kids = [x for x in wfs.values() if x['id'] != wid]
            info = {'signature': sig, 'summary': w.summary(),
                    'errors': [repr(e)[:160] for e in w.errors]}
            check(len(kids) == 1, 'child-missing', info)
            if not kids:
                return
            kid = kids[0]
            t1 = [t for t in tasks.values() if t['name'] == 't1'][0]
            check(kid['root_execution_id'] == wid and
                  kid['task_execution_id'] == t1['id'] and
                  (kid['runtime_context'] or {}).get('index') == 0 and
                  (kid['params'] or {}).get('namespace') in ('', None),
                  'undeclared-input-overwrote-engine-parameter',
                  dict(info, kid={k: kid[k] for k in
                                  ('root_execution_id', 'task_execution_id',
                                   'runtime_context')},
                       params=kid['params']))
            check(wfs[wid]['state'] == 'SUCCESS',
                  'parent-never-finishes', dict(info, signature=sig +
                                                ':parent-stuck'))
    return case


@obligation(
    'C09.E', engine='symx+world(minidb)',
    functions=['mistral.engine.actions:WorkflowAction.schedule',
               'mistral.engine.workflows:Workflow.'
               '_send_result_to_parent_workflow',
               'mistral.engine.default_engine:DefaultEngine.on_action_complete',
               'mistral.engine.action_handler:on_action_complete',
               'mistral.engine.tasks:RegularTask.on_action_complete',
               'mistral.engine.utils:resolve_workflow_definition',
               'mistral.workflow.data_flow:get_workflow_environment_dict',
               'mistral.workflow.data_flow:get_task_execution_result',
               'mistral.engine.workflow_handler:start_workflow'],
    bounds={'quick': '3-level nesting (top -> mid -> leaf) and with-items '
                     'over a sub-workflow (2 items); every action outcome '
                     'symbolic; sub-workflows started in-process and through '
                     'the message bus; environment given at the root; the '
                     'three definitions placed by the solver in the '
                     "caller's namespace, the default one or both; "
                     'workbook members calling each other by short name '
                     '(names from a catalogue sharing characters and dots, '
                     'with / without a global namesake); <= 1 '
                     'out-of-order delivery',
            'thorough': '<= 2 out-of-order deliveries'},
    stubs=['minidb', 'QueueRPC', 'FakeScheduler', 'FakeExecutor',
           'post-commit queue inline', 'real YAQL'],
    outside='expressions as workflow name',
    timeout=(400, 2400))
def c09_e(ctx):
    """parent task state = child state, result = child output, the parent
    continues exactly once, every descendant records the root execution and
    namespace and sees the root's environment, undeclared input becomes
    parameters, one child per item with ordered results"""
    boot()
    k = ctx.pick(1, 2)
    for via in (False, True):
        yield Case('nest/%s' % ('rpc' if via else 'inproc'),
                   _c09_case(NEST, 'nest', via, k, env={'k': 'ENV'}),
                   needed=['quiescent', 'has-child', 'all-success',
                           'leaf-failed'])
        yield Case('items/%s' % ('rpc' if via else 'inproc'),
                   _c09_case(ITEMS, 'items', via, k),
                   needed=['quiescent', 'has-child'])
        if not via:
            yield Case('workbook-names', _wb_case(),
                       needed=['ran', 'global-namesake'])
        yield Case('namespaces/%s' % ('rpc' if via else 'inproc'),
                   _ns_case(via),
                   needed=['ran', 'fallback-to-default', 'leaf-in-both'])


@obligation(
    'C09.3', engine='symx+world(minidb)',
    functions=['mistral.engine.actions:WorkflowAction.schedule'],
    bounds='one undeclared sub-workflow input whose name is one of '
           'root_execution_id, task_execution_id, index, namespace, or a '
           'harmless name',
    stubs=['minidb', 'QueueRPC', 'FakeScheduler', 'FakeExecutor'])
def c09_3(ctx):
    """input that the child does not declare never overwrites the engine's
    own execution parameters (root, parent task link, index, namespace)"""
    boot()
    for key in ('harmless', 'root_execution_id', 'task_execution_id',
                'index', 'namespace'):
        yield Case(key, _collide_case(key), needed=['ran'])
