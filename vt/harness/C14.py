"""C14 - definition validation is total; accepted definitions are stable
(spec == spec rebuilt from its stored form; every workbook member is the
member written in the workbook) and runnable.

Input space (the property's quantifier): YAML documents obtained by
structure-aware mutation of valid definitions.  A mutation is a solver
choice (site, operator, replacement value); integer leaves are additionally
made *symbolic* (an ``int`` subclass wrapping a z3 term, so that the real
jsonschema and the real spec classes run on it and fork on its value).
"""
import copy
import json
import os
import signal
import time
import traceback

from vt import symx
from vt.kit import obligation, Case, REPO
from vt.symx import check, reach, note, choice, assume

# ----------------------------------------------------------------------
# base documents (valid definitions written to use every DSL construct)
# ----------------------------------------------------------------------
WF_DIRECT = """
version: '2.0'
wf:
  description: a direct workflow
  tags: [x, y]
  input:
    - a
    - b: 1
  vars:
    v: <% $.a %>
  output:
    o: <% $.v %>
  output-on-error:
    e: <% $.a %>
  task-defaults:
    timeout: 30
    on-error:
      - cleanup
  tasks:
    t1:
      description: first
      action: std.echo output=<% $.a %>
      input:
        extra: 1
      publish:
        p: <% task().result %>
      publish-on-error:
        q: 1
      retry:
        count: 2
        delay: 1
        break-on: <% $.a = 1 %>
        continue-on: <% $.a = 2 %>
      wait-before: 1
      wait-after: 2
      timeout: 5
      pause-before: false
      keep-result: true
      safe-rerun: true
      target: node1
      on-success:
        - t2: <% $.p = 1 %>
        - t3
      on-error:
        publish:
          branch:
            x: 1
          global:
            g: <% $.a %>
        next:
          - t3
      on-complete: fail msg="boom"
    t2:
      workflow: sub x=1
      with-items: i in <% $.b %>
      concurrency: 2
      on-success: j
    t3:
      with-items:
        - i in [1, 2]
        - k in <% $.b %>
      action: std.noop
      retry: count=3 delay=1
      fail-on: <% $.a = 3 %>
      on-success:
        - j
    j:
      join: 1
      action: std.noop
      on-skip: cleanup
      publish-on-skip:
        s: 1
    cleanup:
      action: std.noop
"""

WF_REVERSE = """
version: '2.0'
rw:
  type: reverse
  input:
    - a
  task-defaults:
    requires: [r0]
  tasks:
    r0:
      action: std.noop
    r1:
      action: std.echo output="x"
      requires: r0
      publish:
        p: <% task().result %>
    r2:
      action: std.noop
      requires: [r0, r1]
      retry:
        count: <% $.a %>
        delay: 0
"""

WF_TWO = """
version: '2.0'
first:
  tasks:
    a:
      action: std.noop
      on-success: b
    b:
      join: all
second:
  type: direct
  input: [x]
  tasks:
    a:
      workflow: first
      on-complete:
        - noop
"""

WB = """
version: '2.0'
name: wb
description: a workbook
tags: [t]
actions:
  act1:
    description: adhoc
    base: std.echo
    base-input:
      output: <% $.x %>
    input:
      - x
      - y: 2
    output: <% $ %>
  act2:
    base: std.echo output="hi"
workflows:
  wf1:
    type: direct
    input:
      - p
    tasks:
      t:
        action: act1 x=<% $.p %>
        on-success: u
      u:
        action: std.noop
  wf2:
    type: reverse
    tasks:
      t:
        action: std.noop
"""

ACTIONS = """
version: '2.0'
greet:
  description: says hello
  tags: [g]
  base: std.echo
  base-input:
    output: "Hello <% $.name %>"
  input:
    - name
    - loud: false
  output: <% $ %>
concat:
  base: std.echo output="a b"
"""

BASES = {
    'wf_direct': ('wf', WF_DIRECT),
    'wf_reverse': ('wf', WF_REVERSE),
    'wf_two': ('wf', WF_TWO),
    'wb': ('wb', WB),
    'actions': ('act', ACTIONS),
}

# replacement values: one representative per YAML scalar / collection kind,
# valid and malformed expressions in both syntaxes, odd strings
VALUES = [
    None, True, False, 0, 1, -1, 2, 2.0, 2.5, float('nan'), '', ' ', 'x',
    'a b',
    'a b=1', 'noop', 'fail', 'all', '2.0', 'version',
    '<% $.x %>', '<% $. %>', '{{ _.x }}', '{{ _. }}', '<% 1 %> {{ 2 }}',
    'i in <% $.x %>', 'i in [1, 2', 'x=<% $. %>',
    [], ['x'], [1], ['x', 'x'], [{'x': 1}], [{'x': 1, 'y': 2}], [['x']],
    {}, {'x': 1}, {'x': None}, {1: 'x'}, {'a b': 1}, {'x': '<% $. %>'},
    {'x': {'y': '<% $. %>'}}, {'next': 'x'}, {'publish': {'branch': {'x': 1}}},
]
QUICK_VALUES = [None, True, 0, -1, 2.0, 2.5, '', 'x', 'a b=1', '<% $.x %>',
                '<% $. %>', '{{ _. }}', [], ['x'], [1], {}, {'x': 1},
                {1: 'x'}, 'all']
ODD_KEYS = [1, True, None, '', 'a b', 'a.b', 'a-b', 'version', 'name',
            'noop', 'tasks', 'x' * 260, '11111111-1111-1111-1111-111111111111',
            'ä', 't1']
QUICK_KEYS = [1, None, '', 'a b', 'version', 'name', 'x' * 260]


def _load(text):
    from mistral.utils import safe_yaml
    return safe_yaml.load(text)


_DUMPER = []


def _dump(doc):
    import yaml
    from yaml import events
    if not _DUMPER:
        class D(yaml.SafeDumper):
            # PyYAML writes keys of >= 128 characters in the '? key' form;
            # a person writes 'key:' - keep long names simple keys
            def check_simple_key(self):
                if isinstance(self.event, events.ScalarEvent):
                    if self.analysis is None:
                        self.analysis = self.analyze_scalar(self.event.value)
                    return not self.analysis.empty and \
                        not self.analysis.multiline
                return super(D, self).check_simple_key()
        _DUMPER.append(D)
    return yaml.dump(doc, Dumper=_DUMPER[0], sort_keys=False,
                     default_flow_style=False, width=10000,
                     allow_unicode=True)


def sites(doc, prefix=()):
    """Every node below the root, as a path of keys / indexes."""
    out = []
    if isinstance(doc, dict):
        for k, v in doc.items():
            out.append(prefix + (k,))
            out += sites(v, prefix + (k,))
    elif isinstance(doc, list):
        for i, v in enumerate(doc):
            out.append(prefix + (i,))
            out += sites(v, prefix + (i,))
    return out


def _parent(doc, path):
    cur = doc
    for k in path[:-1]:
        cur = cur[k]
    return cur


def get_at(doc, path):
    cur = doc
    for k in path:
        cur = cur[k]
    return cur


def op_replace(doc, path, value):
    _parent(doc, path)[path[-1]] = copy.deepcopy(value)


def op_delete(doc, path):
    p = _parent(doc, path)
    if isinstance(p, dict):
        del p[path[-1]]
    else:
        p.pop(path[-1])


def op_rename(doc, path, new_key):
    p = _parent(doc, path)
    items = list(p.items())
    p.clear()
    for k, v in items:
        p[new_key if k == path[-1] else k] = v


def op_extra(doc, path, key, value):
    node = get_at(doc, path) if path else doc
    node[key] = copy.deepcopy(value)


def _fmt_path(path):
    return '/'.join(str(p) for p in path)


# ----------------------------------------------------------------------
# running the real entry points
# ----------------------------------------------------------------------
from vt.env import fast_schema_check  # noqa


class Hang(Exception):
    pass


class _alarm(object):
    """A validation call that needs more than ``s`` seconds is a hang."""

    def __init__(self, s):
        self.s = s
        self.ok = False

    def __enter__(self):
        import threading
        self.ok = threading.current_thread() is threading.main_thread()
        if self.ok:
            def h(signum, frame):
                raise Hang('no answer after %ss' % self.s)
            self.old = signal.signal(signal.SIGALRM, h)
            signal.setitimer(signal.ITIMER_REAL, self.s)

    def __exit__(self, *a):
        if self.ok:
            signal.setitimer(signal.ITIMER_REAL, 0)
            signal.signal(signal.SIGALRM, self.old)
        return False


def _where(e):
    """Deepest frame of the traceback that lies in /repo."""
    tb = traceback.extract_tb(e.__traceback__)
    loc = None
    for f in tb:
        if f.filename.startswith(REPO + os.sep) and '/tests/' not in \
                f.filename:
            loc = '%s:%s' % (os.path.relpath(f.filename, REPO), f.name)
    last = tb[-1] if tb else None
    return loc or (last and '%s:%s' % (os.path.basename(last.filename),
                                       last.name)) or '?'


def definition_error(e):
    """The property's 'rejects with a definition error (HTTP 400 class)'."""
    from mistral import exceptions as exc
    return isinstance(e, exc.DSLParsingException)


def parse_entry(kind):
    from mistral.lang import parser as p
    return {'wf': p.get_workflow_list_spec_from_yaml,
            'wb': p.get_workbook_spec_from_yaml,
            'act': p.get_action_list_spec_from_yaml}[kind]


def parse_dict_entry(kind):
    from mistral.lang import parser as p
    return {'wf': p.get_workflow_list_spec,
            'wb': p.get_workbook_spec,
            'act': p.get_action_list_spec}[kind]


def service_entries(kind):
    from mistral.services import workflows as wfs
    from mistral.services import workbooks as wbs
    from mistral.services import adhoc_actions as acts
    return {'wf': [('create_workflows', wfs.create_workflows),
                   ('update_workflows', wfs.update_workflows)],
            'wb': [('create_workbook_v2', wbs.create_workbook_v2),
                   ('update_workbook_v2', wbs.update_workbook_v2)],
            'act': [('create_actions', acts.create_actions),
                    ('create_or_update_actions',
                     acts.create_or_update_actions)]}[kind]


def run_total(label, fn, *a, **kw):
    """-> ('accept', value) | ('reject', exc) | ('crash', exc)"""
    try:
        with _alarm(20):
            v = fn(*a, **kw)
        return 'accept', v
    except Exception as e:  # noqa
        if definition_error(e):
            return 'reject', e
        return 'crash', e


# ----------------------------------------------------------------------
# canonical view of a spec object through its public getters
# ----------------------------------------------------------------------
_STATES = ('SUCCESS', 'ERROR', 'SKIPPED')
_SKIP_GETTERS = ('get_schema', 'get_version', 'get_items')


def view(o, depth=0):
    from mistral.lang import base
    if depth > 12:
        return '...'
    if isinstance(o, (base.BaseSpec, base.BaseSpecList)):
        out = {'__cls__': type(o).__name__}
        if isinstance(o, base.BaseSpecList):
            out['items'] = {k: view(o[k], depth + 1) for k in o.item_keys()}
            return out
        if isinstance(o, base.BaseListSpec):
            out['items'] = [view(x, depth + 1) for x in o.get_items()]
            return out
        for name in sorted(dir(type(o))):
            if not name.startswith('get_') or name in _SKIP_GETTERS:
                continue
            m = getattr(o, name)
            import inspect
            try:
                params = [p for p in inspect.signature(m).parameters.values()
                          if p.default is p.empty]
            except (TypeError, ValueError):
                continue
            if not params:
                out[name] = view(m(), depth + 1)
            elif name == 'get_publish' and len(params) == 1:
                # NOTE: on copies - get_publish merges into cached objects
                out[name] = {s: view(copy.deepcopy(o).get_publish(s),
                                     depth + 1) for s in _STATES}
        if hasattr(o, 'get_tasks') and hasattr(o, 'get_on_success_clause'):
            for t in o.get_tasks():
                n = t.get_name()
                out['clauses:%s' % n] = view([
                    o.get_on_success_clause(n), o.get_on_error_clause(n),
                    o.get_on_complete_clause(n), o.get_on_skip_clause(n),
                    sorted(o.find_outbound_task_names(n), key=repr),
                    [x.get_name() for x in o.find_inbound_task_specs(t)]],
                    depth + 1)
            out['start'] = [t.get_name() for t in o.find_start_tasks()]
        if hasattr(o, 'get_task_requires'):
            for t in o.get_tasks():
                out['requires:%s' % t.get_name()] = sorted(
                    o.get_task_requires(t), key=repr)
        return out
    if isinstance(o, dict):
        # keys as the JSON columns keep them (1 -> '1'): everything the
        # engine stores goes through JSON, so non-string keys of *data*
        # dictionaries are outside the comparison
        return {'dict': [[_json_key(k), view(v, depth + 1)]
                         for k, v in o.items()]}
    if isinstance(o, (list, tuple)):
        return [view(x, depth + 1) for x in o]
    if isinstance(o, float) and o != o:
        return 'NaN'
    return o


def _json_key(k):
    if isinstance(k, str):
        return k
    try:
        return list(json.loads(json.dumps({k: 0})))[0]
    except (TypeError, ValueError):
        return repr(k)


def jsonable(o):
    return json.loads(json.dumps(o))


def same(a, b):
    """Structural equality of two views; symbolic leaves give a SymBool."""
    if isinstance(a, SymLeaf) or isinstance(b, SymLeaf):
        return a == b
    if type(a) is not type(b):
        if isinstance(a, (int, float)) and isinstance(b, (int, float)) \
                and not isinstance(a, bool) and not isinstance(b, bool):
            return a == b
        return False
    if isinstance(a, dict):
        if list(a.keys()) != list(b.keys()):
            if sorted(a.keys(), key=repr) != sorted(b.keys(), key=repr):
                return False
        r = True
        for k in a:
            r = symx.sym_and(r, same(a[k], b[k]))
        return r
    if isinstance(a, list):
        if len(a) != len(b):
            return False
        r = True
        for x, y in zip(a, b):
            r = symx.sym_and(r, same(x, y))
        return r
    return a == b


def first_diff(a, b, path=''):
    if isinstance(a, dict) and isinstance(b, dict):
        for k in list(a) + [k for k in b if k not in a]:
            if k not in a or k not in b:
                return '%s/%s: only on one side' % (path, k)
            d = first_diff(a[k], b[k], '%s/%s' % (path, k))
            if d:
                return d
        return None
    if isinstance(a, list) and isinstance(b, list):
        if len(a) != len(b):
            return '%s: lengths %d / %d' % (path, len(a), len(b))
        for i, (x, y) in enumerate(zip(a, b)):
            d = first_diff(x, y, '%s/%d' % (path, i))
            if d:
                return d
        return None
    if isinstance(a, SymLeaf) or isinstance(b, SymLeaf):
        return None
    if isinstance(a, float) and isinstance(b, float) and a != a and b != b:
        return None
    if a != b or type(a) is not type(b):
        return '%s: %r / %r' % (path, a, b)
    return None


# ----------------------------------------------------------------------
# symbolic integer leaf: a real ``int`` for isinstance(), a z3 term for
# every operator the validation code applies to it
# ----------------------------------------------------------------------
class SymLeaf(int):
    def __new__(cls, sym):
        o = int.__new__(cls, 0)
        o.sym = sym
        return o

    def __deepcopy__(self, memo):
        return self

    def __copy__(self):
        return self

    def _o(self, o):
        return o.sym if isinstance(o, SymLeaf) else o

    def _num(self, o):
        return isinstance(o, (int, float)) and not isinstance(o, bool) \
            or isinstance(o, (SymLeaf, symx.SymInt))

    def __lt__(self, o):
        return self.sym < self._o(o)

    def __le__(self, o):
        return self.sym <= self._o(o)

    def __gt__(self, o):
        return self.sym > self._o(o)

    def __ge__(self, o):
        return self.sym >= self._o(o)

    def __eq__(self, o):
        if isinstance(o, bool):
            # python: True == 1; forks on the value
            return self.sym == int(o)
        if not self._num(o):
            return False
        return self.sym == self._o(o)

    def __ne__(self, o):
        r = self.__eq__(o)
        return (not r) if isinstance(r, bool) else symx.sym_not(r)

    def __hash__(self):
        raise symx.ProxyMisuse('hash() of a symbolic leaf')

    def __bool__(self):
        return bool(self.sym != 0)

    def __add__(self, o):
        return SymLeaf(self.sym + self._o(o))

    __radd__ = __add__

    def __sub__(self, o):
        return SymLeaf(self.sym - self._o(o))

    def __rsub__(self, o):
        return SymLeaf(self._o(o) - self.sym)

    def __mul__(self, o):
        return SymLeaf(self.sym * self._o(o))

    __rmul__ = __mul__

    def __neg__(self):
        return SymLeaf(-self.sym)

    def __mod__(self, o):
        # jsonschema 'multipleOf' etc. are not used by the DSL schemas
        raise symx.ProxyMisuse('% on a symbolic leaf')

    def __index__(self):
        raise symx.ProxyMisuse('__index__ of a symbolic leaf')

    def __int__(self):
        raise symx.ProxyMisuse('int() of a symbolic leaf')

    def __float__(self):
        raise symx.ProxyMisuse('float() of a symbolic leaf')

    def __repr__(self):
        return '<sym %s>' % (getattr(self.sym, 't', self.sym),)

    __str__ = __repr__

    def __format__(self, spec):
        return repr(self)


def realise(doc, model_value_of):
    """Copy of doc with every symbolic leaf replaced by its model value."""
    if isinstance(doc, SymLeaf):
        return model_value_of(doc)
    if isinstance(doc, dict):
        return {k: realise(v, model_value_of) for k, v in doc.items()}
    if isinstance(doc, list):
        return [realise(v, model_value_of) for v in doc]
    return doc


# ----------------------------------------------------------------------
# oracles shared by the cases
# ----------------------------------------------------------------------
def sig_crash(oid, entry, e):
    return '%s:%s:crash:%s@%s' % (oid, entry, type(e).__name__, _where(e))


def check_total(oid, entry, status, val, info):
    if status == 'crash':
        tb = traceback.extract_tb(val.__traceback__)
        check(False, 'internal-error-instead-of-definition-error',
              dict(info, signature=sig_crash(oid, entry, val),
                   error='%s: %s' % (type(val).__name__, str(val)[:200]),
                   where=['%s:%s:%s' % (os.path.basename(f.filename),
                                        f.lineno, f.name) for f in tb[-4:]]))
        return False
    return True


def check_rebuild(oid, spec_cls_entry, spec, info, through_json=True):
    """spec == spec rebuilt from its own stored form (to_dict -> JSON column
    -> instantiate without validation: what the engine does after a restart
    or a cache eviction)."""
    v1 = view(spec)
    stored = copy.deepcopy(spec.to_dict())
    if through_json:
        try:
            stored = jsonable(stored)
        except (TypeError, ValueError) as e:
            check(False, 'stored-form-not-serialisable',
                  dict(info, signature='%s:store:%s' % (oid,
                                                        type(e).__name__),
                       error=str(e)[:200]))
            return
    try:
        again = spec_cls_entry(stored)
    except Exception as e:  # noqa
        check(False, 'stored-form-cannot-be-reinstantiated',
              dict(info, signature='%s:rebuild:%s@%s' % (
                  oid, type(e).__name__, _where(e)), error=str(e)[:200]))
        return
    v2 = view(again)
    if through_json:
        v1 = jsonable(v1) if _is_jsonable(v1) else v1
        v2 = jsonable(v2) if _is_jsonable(v2) else v2
    eq = same(v1, v2)
    check(eq, 'rebuilt-spec-differs',
          dict(info, signature='%s:rebuild-differs:%s' % (
              oid, (first_diff(v1, v2) or '?').split(':')[0][-60:]),
              diff=first_diff(v1, v2)))
    # the second generation must be a fixpoint too
    v3 = view(spec)
    check(same(view(spec), v3) and (not through_json or
                                    first_diff(jsonable(v3) if
                                               _is_jsonable(v3) else v3,
                                               v1) is None),
          'getters-changed-the-spec',
          dict(info, signature='%s:getter-mutation' % oid))


def _is_jsonable(v):
    try:
        json.dumps(v)
        return True
    except (TypeError, ValueError):
        return False


def rebuild_entry(kind):
    from mistral.lang import base
    from mistral.lang import parser as p
    from mistral.lang.v2 import workbook, workflows, actions

    def wf_list(d):
        return base.instantiate_spec(workflows.WorkflowListSpec, d, False)

    def act_list(d):
        return base.instantiate_spec(actions.ActionListSpec, d, False)

    def wb(d):
        return p.get_workbook_spec(d, False)
    return {'wf': wf_list, 'wb': wb, 'act': act_list}[kind]


# ----------------------------------------------------------------------
# C14.1  totality + stability under structural mutation (text level)
# ----------------------------------------------------------------------
OPS = ('replace', 'delete', 'rename', 'extra')


def _mutate(doc, tier_quick, rounds, restrict=None, ops=OPS):
    """Applies ``rounds`` solver-chosen mutations; returns descriptions."""
    desc = []
    for r in range(rounds):
        ss = sites(doc)
        if restrict is not None:
            ss = [s for s in ss if restrict(s)]
        op = choice('op%d' % r, list(ops))
        if op == 'extra':
            dsites = [()] + [s for s in ss if isinstance(get_at(doc, s),
                                                         dict)]
            s = choice('site%d' % r, dsites)
            k = choice('key%d' % r, ['bogus'] + (QUICK_KEYS if tier_quick
                                                 else ODD_KEYS)[:6])
            v = choice('val%d' % r, [1, 'x', None, {'x': 1}])
            node = get_at(doc, s)
            assume(k not in node)
            op_extra(doc, s, k, v)
            desc.append('extra %s[%r]=%r' % (_fmt_path(s), k, v))
            continue
        s = choice('site%d' % r, ss)
        if op == 'delete':
            op_delete(doc, s)
            desc.append('delete %s' % _fmt_path(s))
        elif op == 'rename':
            assume(isinstance(_parent(doc, s), dict))
            k = choice('key%d' % r, QUICK_KEYS if tier_quick else ODD_KEYS)
            assume(k not in _parent(doc, s))
            op_rename(doc, s, k)
            desc.append('rename %s -> %r' % (_fmt_path(s), k))
        else:
            v = choice('val%d' % r, QUICK_VALUES if tier_quick else VALUES)
            op_replace(doc, s, v)
            desc.append('replace %s := %r' % (_fmt_path(s), v))
    return desc


def _db():
    from vt import minidb
    return minidb.MiniDB(id_prefix='d')


def _total_and_stable(oid, kind, doc, desc, services=True, text=None,
                      base_text=None):
    from vt import minidb, env
    from mistral.lang import parser as spec_parser
    info = {'mutation': desc, 'kind': kind}
    if text is None:
        try:
            text = _dump(doc)
        except Exception as e:  # noqa  (cannot be written as YAML)
            raise symx.PathAbort()
    info['text'] = text[:1500]
    fast_schema_check()
    spec_parser.clear_caches()
    status, val = run_total('parse', parse_entry(kind), text)
    if not check_total(oid, 'parse', status, val, info):
        return
    if status == 'reject':
        reach('rejected')
    else:
        reach('accepted')
        if val is None:
            check(False, 'validation-returned-nothing',
                  dict(info, signature='%s:parse:none' % oid))
            return
        check_rebuild(oid, rebuild_entry(kind), val, info)
    if not services:
        return
    accepted = status == 'accept'
    for name, fn in service_entries(kind):
        db = _db()
        with minidb.installed(db, per_thread_tx_lock=False), \
                env.auth_ctx('proj-a', False):
            if name.startswith('update_'):
                # an update needs the objects to exist
                st0, v0 = run_total('create', service_entries(kind)[0][1],
                                    base_text or BASES_TEXT[kind])
                if st0 != 'accept':
                    continue
            st, v = run_total(name, fn, text)
            if st == 'crash':
                from mistral import exceptions as exc
                if isinstance(v, (exc.MistralException, exc.MistralError)) \
                        and getattr(v, 'http_code', 500) < 500:
                    # e.g. DBEntityNotFound for an update of an object
                    # whose name the mutation changed: a 4xx answer
                    reach('service-4xx')
                    continue
            if not check_total(oid, name, st, v, info):
                continue
            if st != 'accept':
                continue
            reach('stored')
            _check_stored(oid, kind, name, db, doc, text, info)


BASES_TEXT = {}


def _check_stored(oid, kind, entry, db, doc, text, info):
    """What the database now holds is the definition that was submitted."""
    from mistral.db.v2.sqlalchemy import models
    from mistral.lang import parser as p
    src = _load(text)
    if kind == 'act':
        return
    rows = db.rows(models.WorkflowDefinition)
    members = src if kind == 'wf' else (src.get('workflows') or {})
    names = [k for k in members if k != 'version']
    prefix = '' if kind == 'wf' else '%s.' % src.get('name')
    have = sorted(str(r['name']) for r in rows)
    want_names = sorted(prefix + str(n) for n in names)
    check(have == want_names if entry.startswith('create')
          else all(n in have for n in want_names),
          'stored-workflows-differ-from-document',
          dict(info, signature='%s:%s:stored-names' % (oid, entry),
               stored=[r['name'] for r in rows], written=names))
    for r in rows:
        short = r['name'][len(prefix):] if isinstance(r['name'], str) \
            else r['name']
        written = None
        for n in names:
            if str(n) == str(short):
                written = members[n]
        if written is None:
            continue
        # (1) the stored spec dict, re-instantiated the way the engine does
        try:
            again = p.get_workflow_spec(copy.deepcopy(r['spec']))
        except Exception as e:  # noqa
            check(False, 'stored-spec-cannot-be-reinstantiated',
                  dict(info, signature='%s:%s:respec:%s@%s' % (
                      oid, entry, type(e).__name__, _where(e)),
                      error=str(e)[:200]))
            continue
        fresh_doc = {'version': '2.0', 'w': copy.deepcopy(written)}
        try:
            ref = p.get_workflow_list_spec(jsonable(fresh_doc),
                                           True).get_workflows()[0]
        except Exception:  # noqa  (e.g. a member only valid in context)
            ref = None
        if ref is not None:
            va, vb = view(again), view(ref)
            for v_ in (va, vb):
                v_.pop('get_name', None)
            va, vb = (jsonable(va), jsonable(vb)) if _is_jsonable(va) and \
                _is_jsonable(vb) else (va, vb)
            check(same(va, vb), 'stored-spec-is-not-the-written-workflow',
                  dict(info, signature='%s:%s:stored-spec:%s' % (
                      oid, entry, (first_diff(va, vb) or '?')
                      .split(':')[0][-60:]), diff=first_diff(va, vb)))
        # (2) the stored definition text is the member that was written
        dtext = r['definition']
        try:
            cut = _load(dtext)
        except Exception as e:  # noqa
            check(False, 'stored-definition-is-not-yaml',
                  dict(info, signature='%s:%s:cut-unparsable' % (oid, entry),
                       stored_definition=dtext[:400]))
            continue
        got = cut.get(short) if isinstance(cut, dict) else None
        if got is None and isinstance(cut, dict):
            for k in cut:
                if str(k) == str(short):
                    got = cut[k]
        want = jsonable(written) if _is_jsonable(written) else written
        got_j = jsonable(got) if _is_jsonable(got) else got
        # the spec classes write name/version/type into the dicts they are
        # given; the text cannot contain them
        check(first_diff(_strip(got_j), _strip(want)) is None,
              'stored-definition-is-not-the-written-workflow',
              dict(info, signature='%s:%s:cut-differs' % (oid, entry),
                   stored_definition=(dtext or '')[:600],
                   diff=first_diff(_strip(got_j), _strip(want))))


def _strip(d):
    return d


def c14_1_cases(ctx, oid='C14.1'):
    for bname, (kind, text) in BASES.items():
        BASES_TEXT.setdefault(kind, text)

        def mk(op, bname=bname, kind=kind, text=text):
            holder = {}

            def case():
                if 'doc' not in holder:
                    holder['doc'] = _load(text)
                doc = copy.deepcopy(holder['doc'])
                desc = _mutate(doc, ctx.quick, 1, ops=(op,))
                _total_and_stable(oid, kind, doc, desc, base_text=text)
            return case
        for op in OPS:
            yield Case('%s/%s' % (bname, op), mk(op),
                       needed=['rejected'] + (
                           ['accepted', 'stored'] if op != 'rename' else []),
                       max_paths=400000, shard_depth=0)


@obligation(
    'C14.1', engine='symx',
    functions=['mistral.lang.parser:get_workflow_list_spec_from_yaml',
               'mistral.lang.parser:get_workbook_spec_from_yaml',
               'mistral.lang.parser:get_action_list_spec_from_yaml',
               'mistral.lang.parser:_get_spec_version',
               'mistral.lang.parser:_parse_def_from_wb',
               'mistral.lang.base:instantiate_spec',
               'mistral.lang.base:BaseSpec.validate_schema',
               'mistral.lang.base:BaseSpec._parse_cmd_and_input',
               'mistral.lang.base:BaseListSpec.__init__',
               'mistral.lang.base:BaseSpecList.__init__',
               'mistral.lang.v2.workflows:WorkflowSpec.__init__',
               'mistral.lang.v2.workflows:DirectWorkflowSpec.validate_semantics',
               'mistral.lang.v2.workflows:ReverseWorkflowSpec.validate_semantics',
               'mistral.lang.v2.tasks:TaskSpec.__init__',
               'mistral.lang.v2.tasks:TaskSpec.validate_schema',
               'mistral.lang.v2.tasks:DirectWorkflowTaskSpec.validate_semantics',
               'mistral.lang.v2.on_clause:OnClauseSpec.__init__',
               'mistral.lang.v2.on_clause:prepare_next_clause',
               'mistral.lang.v2.publish:PublishSpec.validate_semantics',
               'mistral.lang.v2.retry_policy:RetrySpec.__init__',
               'mistral.lang.v2.policies:PoliciesSpec.__init__',
               'mistral.lang.v2.task_defaults:TaskDefaultsSpec.__init__',
               'mistral.lang.v2.actions:ActionSpec.__init__',
               'mistral.lang.v2.workbook:WorkbookSpec.__init__',
               'mistral.utils.safe_yaml:load',
               'mistral.expressions:validate',
               'mistral.services.workflows:create_workflows',
               'mistral.services.workflows:update_workflows',
               'mistral.services.workflows:_cut_wf_definition_from_all',
               'mistral.services.workbooks:create_workbook_v2',
               'mistral.services.workbooks:update_workbook_v2',
               'mistral.services.adhoc_actions:create_actions',
               'mistral.services.adhoc_actions:create_or_update_actions'],
    bounds={'quick': '5 base documents (direct / reverse / two-workflow '
                     'lists, workbook, action list) x one solver-chosen '
                     'mutation: site = any node of the document, operator '
                     'in {replace, delete, rename key, add key}, value from '
                     'an 18-value / 7-key catalogue of wrong types, '
                     'malformed expressions and odd names; every mutated '
                     'document is written as YAML and submitted to the '
                     'validator and to the create / update services on '
                     'minidb',
            'thorough': 'same with the 42-value / 15-key catalogue'},
    stubs=['minidb (under the real sqlalchemy db-api)', 'auth context'],
    outside='arbitrary text that is not the YAML rendering of a mutated '
            'document (PyYAML scanner, regex engines and the YAQL / Jinja '
            'grammars are C / parser code whose input cannot be symbolic); '
            'two simultaneous mutations; time: a validation call that needs '
            '> 20 s is reported '
            'as a hang',
    timeout=(420, 3000))
def c14_1(ctx):
    """Validation is total (accept or definition error, never an internal
    error, never a hang) and what is stored is what was written, for every
    single structural mutation of the base documents."""
    yield from c14_1_cases(ctx)


# ----------------------------------------------------------------------
# C14.2  integer leaves for ALL integers (symbolic leaf through the real
#        jsonschema and the real spec classes)
# ----------------------------------------------------------------------
POLICY_KEYS = ('count', 'delay', 'wait-before', 'wait-after', 'timeout',
               'concurrency')


def int_sites(doc):
    return [s for s in sites(doc)
            if isinstance(get_at(doc, s), int)
            and not isinstance(get_at(doc, s), bool)]


def _inbound_count(doc, path):
    """Number of tasks with a transition to the task that owns ``path``."""
    wf = doc[path[0]]
    target = path[2]
    n = 0
    for tname, t in wf['tasks'].items():
        hit = False
        for k in ('on-success', 'on-error', 'on-complete', 'on-skip'):
            c = t.get(k)
            if isinstance(c, dict):
                c = c.get('next')
            for item in ([c] if isinstance(c, (str, dict)) else (c or [])):
                name = list(item)[0] if isinstance(item, dict) else item
                if str(name).split(' ')[0].split('(')[0] == target:
                    hit = True
        n += hit
    return n


def c14_2_cases(ctx, oid='C14.2'):
    for bname, (kind, text) in BASES.items():
        if kind != 'wf':
            continue

        def mk(bname=bname, kind=kind, text=text):
            holder = {}

            def case():
                from mistral.lang import parser as spec_parser
                if 'doc' not in holder:
                    holder['doc'] = _load(text)
                doc = copy.deepcopy(holder['doc'])
                ss = int_sites(doc)
                s = choice('site', ss)
                n = symx.fresh_int('n', -2 ** 40, 2 ** 40)
                # (concrete replay of a model: a plain int)
                leaf = SymLeaf(n) if isinstance(n, symx.SymInt) else n
                _parent(doc, s)[s[-1]] = leaf
                second = None
                if not ctx.quick and len(ss) > 1:
                    # a second symbolic leaf somewhere else
                    if symx.fresh_bool('two'):
                        s2 = choice('site2', [x for x in ss if x != s])
                        second = symx.fresh_int('m', -2 ** 40, 2 ** 40)
                        if isinstance(second, symx.SymInt):
                            second = SymLeaf(second)
                        _parent(doc, s2)[s2[-1]] = second
                info = {'site': _fmt_path(s), 'kind': kind, 'base': bname,
                        'render': lambda m: {'n': m.get('n'),
                                             'm': m.get('m')}}
                fast_schema_check()
                spec_parser.clear_caches()
                work = copy.deepcopy(doc)
                status, val = run_total('parse', parse_dict_entry(kind),
                                        work, True)
                if not check_total(oid, 'parse', status, val,
                                   dict(info, signature=None)):
                    return
                key = s[-1]
                is_policy = key in POLICY_KEYS and 'tasks' in s or \
                    key in POLICY_KEYS and 'task-defaults' in s
                if status == 'accept':
                    reach('accepted')
                    if is_policy and second is None:
                        check(n >= 0, 'negative-policy-value-accepted',
                              dict(info, signature='%s:%s:negative' % (
                                  oid, key)))
                    if key == 'join' and second is None:
                        k = _inbound_count(holder['doc'], s)
                        check(symx.sym_and(n >= 0, n <= k),
                              'unsatisfiable-join-accepted',
                              dict(info, signature='%s:join-range' % oid,
                                   inbound=k))
                    check_rebuild(oid, rebuild_entry(kind), val, info,
                                  through_json=False)
                    # the value the engine will read is the value written
                    if is_policy or key == 'join':
                        t = val.get_workflows()[0]
                        got = _read_back(t, s)
                        if got is not None:
                            check(got == n, 'getter-returns-another-value',
                                  dict(info, signature='%s:%s:getter' % (
                                      oid, key)))
                            reach('read-back')
                else:
                    reach('rejected')
                    if is_policy and second is None:
                        check(n < 0, 'valid-policy-value-rejected',
                              dict(info, signature='%s:%s:rejected' % (
                                  oid, key), error=str(val)[:200]))
                    if key not in POLICY_KEYS and key != 'join' and \
                            second is None:
                        check(False, 'data-value-rejected',
                              dict(info, signature='%s:data-rejected' % oid,
                                   error=str(val)[:200]))
                # proxy validation: the same document with the solver's
                # value as a plain int gives the same verdict
                eng = symx.cur()
                if hasattr(eng, '_model') and eng._check() == 'sat':
                    m = eng._model()
                    conc = realise(doc, lambda leaf_: int(
                        m.get('n' if leaf_ is leaf else 'm', 0)))
                    spec_parser.clear_caches()
                    st2, _ = run_total('parse', parse_dict_entry(kind),
                                       conc, True)
                    if st2 != status:
                        raise symx.HarnessError(
                            'symbolic leaf and plain int disagree at %s: '
                            '%s / %s for %r' % (_fmt_path(s), status, st2,
                                                m))
                    # ... and through the YAML text
                    st3, _ = run_total('parse', parse_entry(kind),
                                       _dump(conc))
                    if st3 != status:
                        raise symx.HarnessError(
                            'dict and text entry points disagree at %s'
                            % _fmt_path(s))
            return case
        yield Case('%s/sym-int' % bname, mk(),
                   needed=['accepted', 'rejected', 'read-back'],
                   max_paths=200000)


def _read_back(wf_spec, path):
    """Value of the policy / join at ``path`` through the public getters."""
    key = path[-1]
    if 'task-defaults' in path:
        owner = wf_spec.get_task_defaults()
    else:
        owner = wf_spec.get_tasks()[path[2]]
    if owner is None:
        return None
    if key == 'join':
        return owner.get_join()
    pol = owner.get_policies()
    if pol is None:
        return None
    if key in ('count', 'delay'):
        r = pol.get_retry()
        return None if r is None else (r.get_count() if key == 'count'
                                       else r.get_delay())
    return {'wait-before': pol.get_wait_before,
            'wait-after': pol.get_wait_after,
            'timeout': pol.get_timeout,
            'concurrency': pol.get_concurrency}[key]()


@obligation(
    'C14.2', engine='symx',
    functions=['mistral.lang.parser:get_workflow_list_spec',
               'mistral.lang.base:BaseSpec.validate_schema',
               'mistral.lang.v2.tasks:TaskSpec.__init__',
               'mistral.lang.v2.tasks:DirectWorkflowTaskSpec.__init__',
               'mistral.lang.v2.policies:PoliciesSpec.__init__',
               'mistral.lang.v2.retry_policy:RetrySpec.__init__',
               'mistral.lang.v2.task_defaults:TaskDefaultsSpec.__init__',
               'mistral.lang.v2.workflows:DirectWorkflowSpec._check_join_tasks',
               'mistral.lang.types:POSITIVE_INTEGER'],
    bounds={'quick': 'every integer-valued leaf of the 3 workflow base '
                     'documents (policies, retry, join, data values) '
                     'replaced by ONE symbolic integer in [-2^40, 2^40] '
                     'that flows through the real jsonschema validators '
                     'and spec constructors',
            'thorough': 'same, optionally with a second symbolic integer '
                        'at any other integer leaf'},
    stubs=['SymLeaf: int subclass carrying a z3 term (validated per path '
           'against a plain int with the model value, through the dict and '
           'the YAML text entry points)'],
    outside='integers beyond 2^40; string / float leaves (catalogue values '
            'in C14.1); the expression grammars')
def c14_2(ctx):
    """For every integer written at an integer leaf: validation is total;
    policy values are accepted iff >= 0, a join count only if it can be
    met, data values always; the accepted value is the value the getters
    return and the rebuilt spec equals the original."""
    yield from c14_2_cases(ctx)


# ----------------------------------------------------------------------
# C14.3  every member cut out of a workbook text is the member written
# ----------------------------------------------------------------------
def _emit_block(value, indent, step):
    """Block-style YAML for dicts / lists / scalars (json scalars)."""
    import yaml
    pad = ' ' * indent
    lines = []
    if isinstance(value, dict):
        for k, v in value.items():
            if isinstance(v, (dict, list)) and v:
                lines.append('%s%s:' % (pad, k))
                lines += _emit_block(v, indent + step, step)
            else:
                lines.append('%s%s: %s' % (pad, k, _scalar(v)))
    elif isinstance(value, list):
        for v in value:
            if isinstance(v, dict) and len(v) == 1:
                (k, x), = v.items()
                lines.append('%s- %s: %s' % (pad, k, _scalar(x)))
            else:
                lines.append('%s- %s' % (pad, _scalar(v)))
    return lines


def _scalar(v):
    import yaml
    if isinstance(v, str):
        t = yaml.safe_dump(v, default_flow_style=True, width=10000).strip()
        if t.endswith('\n...'):
            t = t[:-4].strip()
        return t
    return json.dumps(v)


WB_MEMBERS = {
    'w_plain': {'tasks': {'t': {'action': 'std.noop', 'on-success': 'u'},
                          'u': {'action': 'std.echo output="x"'}}},
    'w_rev': {'type': 'reverse', 'input': ['p'],
              'tasks': {'t': {'action': 'std.noop'}}},
    'w_nested_name': {'tasks': {'other': {'action': 'std.noop'}}},
}
WB_ACTIONS = {
    'a1': {'base': 'std.echo', 'base-input': {'output': '<% $.x %>'},
           'input': ['x']},
}


def c14_3_cases(ctx, oid='C14.3'):
    def case():
        from vt import minidb, env
        from mistral.services import workbooks as wbs
        from mistral.db.v2.sqlalchemy import models
        from mistral.lang import parser as spec_parser
        step = choice('indent', [2, 4])
        # names: plain; one a prefix of the other; one equal to a task name
        # used inside the other member; one equal to a section name
        names = choice('names', [
            ('wf1', 'wf2'), ('wf1', 'wf10'), ('wf10', 'wf1'),
            ('other', 'x'), ('x', 'other'), ('actions', 'wf'),
            ('wf', 'workflows'), ('tasks', 'wf'), ('a1', 'wf'),
            ('wf-1', 'wf_1'), ('t', 'u')])
        key_style = choice('key_style', ['plain', 'dq', 'sq', 'space',
                                         'trail', 'comment'])
        sect_style = choice('section_style', ['plain', 'space', 'dq',
                                              'comment'])
        actions_first = choice('actions_first', [True, False])
        with_actions = choice('with_actions', [True, False])
        filler = choice('filler', ['none', 'blank', 'comment0',
                                   'comment_in', 'comment_deep'])
        eol = choice('eol', ['\n', '\r\n']) if not ctx.quick else '\n'
        doc_start = choice('doc_start', [False, True])
        flow = choice('flow_member', [False, True]) if not ctx.quick \
            else False

        def key(name, style):
            return {'plain': '%s:' % name, 'dq': '"%s":' % name,
                    'sq': "'%s':" % name, 'space': '%s :' % name,
                    'trail': '%s:   ' % name,
                    'comment': '%s: # note' % name}[style]

        members = {}
        w1 = copy.deepcopy(WB_MEMBERS['w_nested_name'])
        w2 = copy.deepcopy(WB_MEMBERS['w_plain'])
        members[names[0]] = w1
        members[names[1]] = w2
        lines = []
        if doc_start:
            lines.append('---')
        lines += ["version: '2.0'", 'name: wb']

        def section(title, items, style):
            out = [key(title, sect_style)]
            first = True
            for n, body in items.items():
                if not first:
                    if filler == 'blank':
                        out.append('')
                    elif filler == 'comment0':
                        out.append('# about %s' % n)
                    elif filler == 'comment_in':
                        out.append('%s# about %s' % (' ' * step, n))
                first = False
                if flow and style is not None:
                    out.append('%s%s %s' % (' ' * step, key(n, 'plain'),
                                            json.dumps(body)))
                    continue
                out.append('%s%s' % (' ' * step, key(n, style or 'plain')))
                blk = _emit_block(body, 2 * step, step)
                if filler == 'comment_deep':
                    blk.insert(1, '%s# inner' % (' ' * (3 * step)))
                out += blk
            return out
        sec_a = section('actions', WB_ACTIONS, None) if with_actions else []
        sec_w = section('workflows', members, key_style)
        lines += (sec_a + sec_w) if actions_first else (sec_w + sec_a)
        text = eol.join(lines) + eol
        info = {'text': text, 'names': names}
        fast_schema_check()
        spec_parser.clear_caches()
        # only documents that ARE the intended workbook count
        try:
            parsed = _load(text)
        except Exception:  # noqa
            raise symx.PathAbort()
        if not isinstance(parsed, dict) or \
                first_diff(jsonable(parsed.get('workflows')),
                           jsonable(members)) is not None:
            raise symx.PathAbort()
        reach('well-formed')
        db = _db()
        with minidb.installed(db, per_thread_tx_lock=False), \
                env.auth_ctx('proj-a', False):
            st, v = run_total('create_workbook_v2', wbs.create_workbook_v2,
                              text)
            sig_tail = '%s/%s/%s' % (
                key_style if not flow else 'flow', sect_style,
                'names=%s+%s' % names if key_style == 'plain' and
                sect_style == 'plain' and not flow else '*')
            if st == 'crash':
                check(False, 'internal-error-instead-of-definition-error',
                      dict(info, signature='%s:crash:%s@%s:%s' % (
                          oid, type(v).__name__, _where(v), sig_tail),
                          error='%s: %s' % (type(v).__name__,
                                            str(v)[:200])))
                return
            if st == 'reject':
                reach('rejected')
                return
            reach('accepted')
            rows = db.rows(models.WorkflowDefinition)
            for n, body in members.items():
                r = [x for x in rows if x['name'] == 'wb.%s' % n]
                if not check(len(r) == 1, 'member-not-stored',
                             dict(info, signature='%s:missing:%s' % (
                                 oid, sig_tail))):
                    continue
                dtext = r[0]['definition']
                try:
                    cut = _load(dtext)
                except Exception:  # noqa
                    cut = None
                got = cut.get(n) if isinstance(cut, dict) else None
                ok = got is not None and first_diff(
                    jsonable(got), jsonable(body)) is None
                check(ok, 'stored-definition-is-not-the-written-workflow',
                      dict(info, signature='%s:cut-differs:%s' % (
                          oid, sig_tail), member=n,
                          stored_definition=(dtext or '')[:500]))
                if ok:
                    reach('cut-equal')
    yield Case('workbook-text', case,
               needed=['well-formed', 'accepted', 'cut-equal'],
               max_paths=400000, shard_depth=3, procs=14)


@obligation(
    'C14.3', engine='symx',
    functions=['mistral.lang.parser:get_workflow_definition',
               'mistral.lang.parser:get_action_definition',
               'mistral.lang.parser:_parse_def_from_wb',
               'mistral.services.workbooks:create_workbook_v2',
               'mistral.services.workbooks:_get_wf_definition',
               'mistral.services.workbooks:_create_or_update_workflows'],
    bounds={'quick': 'one workbook with two workflows (+ optional action '
                     'section) written with solver-chosen formatting: '
                     'indent 2/4, 11 name pairs (prefixes, a member named '
                     'like a task of the other member / like a section / '
                     'like an action), member-key style (plain, quoted, '
                     'space before colon, trailing blanks, trailing '
                     'comment), section-key style, section order, filler '
                     'lines (blank, comments at 3 depths), document start '
                     'marker',
            'thorough': 'same plus CRLF line ends and flow-style members'},
    stubs=['minidb (under the real sqlalchemy db-api)', 'auth context'],
    outside='other YAML spellings (multi-line scalars, tabs, anchors, '
            'tags); only documents that PyYAML reads as the intended '
            'workbook are considered',
    timeout=(300, 1800))
def c14_3(ctx):
    """For every spelling of the workbook, the service answers (no internal
    error) and the definition text stored for each member workflow parses
    to exactly the member that was written."""
    yield from c14_3_cases(ctx)


# ----------------------------------------------------------------------
# C14.4  accepted definitions are runnable
# ----------------------------------------------------------------------
def c14_4_cases(ctx, oid='C14.4'):
    for bname, (kind, text) in BASES.items():
        if kind != 'wf':
            continue

        def mk(op, bname=bname, text=text):
            holder = {}

            def case():
                from vt.world import World
                from vt import minidb, env
                from mistral import exceptions as exc
                from mistral.lang import parser as spec_parser
                if 'doc' not in holder:
                    holder['doc'] = _load(text)
                doc = copy.deepcopy(holder['doc'])
                desc = _mutate(doc, ctx.quick, 1, ops=(op,))
                try:
                    mtext = _dump(doc)
                except Exception:  # noqa
                    raise symx.PathAbort()
                fast_schema_check()
                spec_parser.clear_caches()
                status, val = run_total('parse', parse_entry('wf'), mtext)
                if status != 'accept' or val is None:
                    raise symx.PathAbort()      # C14.1's business
                # the service must take it as well (names with blanks ...)
                with minidb.installed(_db(), per_thread_tx_lock=False), \
                        env.auth_ctx('proj-a', False):
                    st, _ = run_total('create', service_entries('wf')[0][1],
                                      mtext)
                if st != 'accept':
                    raise symx.PathAbort()
                reach('accepted')
                info = {'mutation': desc, 'text': mtext[:1500]}
                w = World([mtext])
                with w:
                    for wf_spec in val.get_workflows():
                        name = wf_spec.get_name()
                        inp = {k: 1 for k, v in wf_spec.get_input().items()
                               if v is utils_no_value()}
                        n0 = len(w.errors)
                        wid = w.start(name, inp)
                        sig = '%s:%s' % (oid, bname)
                        bad = [(m, repr(e)[:200]) for m, e in w.errors[n0:]
                               if not isinstance(e, (exc.MistralException,
                                                     exc.MistralError))]
                        check(not bad, 'start-failed-with-internal-error',
                              dict(info, signature=sig + ':start:%s' % (
                                  bad and bad[0][1].split('(')[0]),
                                  errors=bad))
                        if wid is None:
                            reach('start-refused')
                            continue
                        try:
                            w.run(max_events=150)
                        except symx.HarnessError:
                            check(False, 'run-does-not-come-to-rest',
                                  dict(info, signature=sig + ':endless',
                                       pending=[repr(e) for e in
                                                w.events[:6]]))
                            return
                        x = w.wf_ex(wid)
                        reach('ran')
                        reach('ended-' + x['state'])
                        bad = [(m, repr(e)[:200]) for m, e in w.errors[n0:]
                               if not isinstance(e, (exc.MistralException,
                                                     exc.MistralError,
                                                     ValueError))]
                        check(not bad, 'engine-raised-internal-error',
                              dict(info, signature=sig + ':engine:%s' % (
                                  bad and bad[0][1].split('(')[0]),
                                  errors=bad, wf=name))
                        check(not w.swallowed,
                              'post-commit-operation-failed',
                              dict(info, signature=sig + ':post-commit',
                                   errors=[repr(s_)[:200]
                                           for s_ in w.swallowed]))
                        check(x['state'] in ('SUCCESS', 'ERROR', 'CANCELLED',
                                             'PAUSED'),
                              'accepted-definition-does-not-finish',
                              dict(info, signature=sig + ':stuck:%s' %
                                   x['state'], wf=name, state=x['state'],
                                   tasks=[(t['name'], t['state'])
                                          for t in w.tasks(wid)]))
            return case
        for op in ('replace', 'delete', 'extra'):
            yield Case('%s/%s' % (bname, op), mk(op),
                       needed=['accepted', 'ran'], max_paths=400000)


def utils_no_value():
    from mistral_lib import utils
    return utils.NotDefined


@obligation(
    'C14.4', engine='symx+world(minidb)',
    functions=['mistral.engine.default_engine:DefaultEngine.start_workflow',
               'mistral.engine.workflows:Workflow.start',
               'mistral.engine.task_handler:run_task',
               'mistral.engine.task_handler:_on_action_complete',
               'mistral.engine.policies:build_policies',
               'mistral.workflow.data_flow:evaluate_workflow_output',
               'mistral.lang.parser:get_workflow_spec_by_execution_id'],
    bounds={'quick': 'every ACCEPTED single mutation (operators replace / '
                     'delete / add key, quick catalogue) of the 3 workflow '
                     'base documents is started on the real engine with the '
                     'required inputs set to 1 and run FIFO with the real '
                     'std actions until nothing is pending',
            'thorough': 'same with the full catalogue'},
    stubs=['minidb', 'QueueRPC', 'FakeScheduler (timers fire in queue '
           'order)', 'FakeExecutor running the real action classes',
           'post-commit queue inline'],
    outside='other inputs, other delivery orders, sub-workflows that do not '
            'exist (declared error)',
    timeout=(500, 3000))
def c14_4(ctx):
    """an accepted definition can be started and its run comes to rest in a
    final (or paused) state; the engine answers problems in the definition
    with declared errors, never with an internal error, a failed post-commit
    operation or a run that never ends"""
    yield from c14_4_cases(ctx)
