"""C16 - every REST operation is authorised and guarded before it has any
effect."""
import inspect

import z3

from vt import symx, env
from vt.kit import obligation, Case, Result, boot
from vt.symx import (fresh_bool, fresh_enum, check, reach, note, choice,
                     assume, sym_and, sym_or, sym_not, implies)

ALL = ('IDLE', 'WAITING', 'RUNNING', 'DELAYED', 'PAUSED', 'SUCCESS',
       'CANCELLED', 'ERROR', 'SKIPPED')

# exposed methods for which no policy rule exists in mistral/policies (the
# property speaks of "its documented policy rule"); anything else that has
# effects without asking a rule is reported
RULELESS = {
    'root.index', 'root.v2.index', 'root.info.get', 'root.maintenance.get',
    'root.maintenance.put', 'root.v2.actions.validate.post',
    'root.v2.workbooks.validate.post', 'root.v2.workflows.validate.post',
}


class _Stop(BaseException):
    pass


class _Recorder(object):
    """stands in for the db-api facade implementation / an RPC client: the
    first call is an *effect*; it is recorded and the request is cut short"""

    def __init__(self, log, kind):
        self._log, self._kind = log, kind

    def __getattr__(self, name):
        if name.startswith('__'):
            raise AttributeError(name)

        def call(*a, **k):
            self._log.append((self._kind, name, dict(k)))
            raise _Stop()
        return call


class _Tx(object):
    def __enter__(self):
        return self

    def __exit__(self, *a):
        return False


class _Obj(object):
    """a permissive request body / argument object"""

    def __init__(self, **kw):
        self.__dict__.update(kw)

    def __getattr__(self, k):
        if k.startswith('__'):
            raise AttributeError(k)
        return None

    def to_dict(self):
        return {}


def enumerate_endpoints():
    import pecan
    from mistral.api.controllers import root
    from mistral.api.controllers.v2 import member
    out = []

    def walk(ctrl, path, seen):
        if id(ctrl) in seen:
            return
        seen.add(id(ctrl))
        for name in sorted(dir(ctrl)):
            if name.startswith('__'):
                continue
            try:
                attr = getattr(ctrl, name)
            except Exception:
                continue
            if inspect.ismethod(attr) and getattr(attr, 'exposed', False):
                if name in ('_route', '_lookup'):
                    continue
                inner = attr.__func__
                d = 0
                while hasattr(inner, '__wrapped__') and d < 10:
                    inner = inner.__wrapped__
                    d += 1
                out.append((path + '.' + name, ctrl, inner))
            elif not inspect.isroutine(attr) and not inspect.isclass(attr) \
                    and type(attr).__module__.startswith(
                        'mistral.api.controllers'):
                walk(attr, path + '.' + name, seen)
    walk(root.RootController(), 'root', set())
    # /v2/workflows/<id>/members is reached through _lookup
    walk(member.MembersController('workflow', 'wf-id'),
         'root.v2.workflows.members', set())
    return out


def _call_args(inner, overrides=None):
    sig = inspect.signature(inner)
    args = {}
    for n, p in list(sig.parameters.items())[1:]:
        if p.kind in (p.VAR_POSITIONAL, p.VAR_KEYWORD):
            continue
        if overrides and n in overrides:
            args[n] = overrides[n]
        elif p.default is not p.empty:
            args[n] = p.default
        else:
            args[n] = _Obj() if n not in ('id', 'identifier', 'name') \
                else 'x-id'
    return args


def _run_endpoint(path, ctrl, inner, verdicts, overrides=None,
                  is_admin=False):
    """Runs the undecorated controller method with recording stubs.
    verdicts: list of bool for successive acl.enforce calls (last repeats).
    Returns (events, outcome) - events: [('enforce', rule, allowed) |
    ('db'|'rpc'|'svc', name)]"""
    from mistral import exceptions as exc
    from mistral.db.v2 import api as db_api
    from mistral.rpc import clients as rpc
    mod = inspect.getmodule(inner)
    log = []
    calls = [0]

    def enforce(action, context, target=None, do_raise=True, **kw):
        i = min(calls[0], len(verdicts) - 1)
        ok = verdicts[i]
        calls[0] += 1
        log.append(('enforce', action, bool(ok)))
        if not ok:
            raise exc.NotAllowedException('denied: %s' % action)
        return True

    class Acl(object):
        pass
    acl = Acl()
    acl.enforce = enforce
    saved = []

    def patch(obj, name, val):
        if hasattr(obj, name):
            saved.append((obj, name, getattr(obj, name)))
            setattr(obj, name, val)
    patch(mod, 'acl', acl)
    from mistral.utils import rest_utils
    patch(rest_utils, 'acl', acl) if hasattr(rest_utils, 'acl') else None
    impl = db_api.IMPL
    db_api.IMPL = _Recorder(log, 'db')
    db_api.IMPL.transaction = lambda *a, **k: _Tx()
    rec_rpc = _Recorder(log, 'rpc')
    patch(rpc, 'get_engine_client', lambda: rec_rpc)
    patch(rpc, 'get_event_engine_client', lambda: rec_rpc)
    for svc in ('workflows', 'workbooks', 'actions', 'triggers',
                'wf_service', 'code_sources', 'dynamic_actions',
                'adhoc_actions', 'maintenance'):
        if hasattr(mod, svc) and inspect.ismodule(getattr(mod, svc)) and \
                getattr(mod, svc).__name__.startswith('mistral.services'):
            patch(mod, svc, _Recorder(log, 'svc'))

    class Req(object):
        text = 'version: "2.0"\nx:\n  tasks:\n    t:\n      action: std.noop'
        body = b''
        headers = {}
        GET = {}
        path = '/v2/x'
        host_url = 'http://h'
        environ = {}

    class Resp(object):
        status = 200
    import pecan
    patch(mod, 'pecan', type('P', (), {'request': Req(), 'response': Resp(),
                                       'abort': staticmethod(pecan.abort),
                                       'expose': pecan.expose})())
    outcome = 'returned'
    try:
        with env.auth_ctx('proj-a', is_admin):
            inner(ctrl, **_call_args(inner, overrides))
    except _Stop:
        outcome = 'effect'
    except exc.NotAllowedException:
        outcome = 'denied'
    except Exception as e:  # noqa  (anything after the guards)
        outcome = 'raised:%s' % type(e).__name__
    finally:
        db_api.IMPL = impl
        for obj, name, val in reversed(saved):
            setattr(obj, name, val)
    return log, outcome


def registered_rules():
    from mistral import policies
    return {r.name: r for r in policies.list_rules()}


@obligation(
    'C16.1', engine='symx',
    functions=['mistral.api.controllers.root:RootController',
               'mistral.api.controllers.v2.root:Controller',
               'mistral.api.access_control:enforce',
               'mistral.policies:list_rules'],
    bounds='every exposed method below RootController plus the members '
           'controller (enumerated from the live controller tree); per '
           'method the verdict of every rule it asks is symbolic (first '
           'and second ask); arguments are permissive stubs',
    stubs=['acl.enforce -> recording stub with symbolic verdict',
           'db-api facade implementation, engine RPC client, service '
           'modules -> recorders (the first call is the first effect)',
           'pecan.request stub'],
    outside='Keystone token validation, wsme argument parsing; effects '
            'after the first one')
def c16_1(ctx):
    """every exposed method asks a registered <resource>:<verb> rule before
    its first database / RPC / service effect; a denied caller gets
    NotAllowedException (403) with zero effects; listing across projects
    asks the admin-only rule first"""
    boot()
    eps = enumerate_endpoints()
    rules = registered_rules()

    def case():
        path, ctrl, inner = choice('endpoint', eps)
        allow1 = bool(fresh_bool('rule1_allowed'))
        allow2 = bool(fresh_bool('rule2_allowed'))
        over = {}
        sig = inspect.signature(inner)
        if 'all_projects' in sig.parameters:
            over['all_projects'] = bool(fresh_bool('all_projects'))
        log, outcome = _run_endpoint(path, ctrl, inner, [allow1, allow2],
                                     over)
        s = 'C16.1:%s' % path
        enf = [e for e in log if e[0] == 'enforce']
        eff = [i for i, e in enumerate(log) if e[0] != 'enforce']
        reach('ran')
        if path in RULELESS:
            reach('ruleless')
            return
        check(len(enf) >= 1, 'no-policy-rule-asked',
              {'signature': s + ':no-rule', 'log': log, 'outcome': outcome})
        if not enf:
            return
        first_enf = [i for i, e in enumerate(log) if e[0] == 'enforce'][0]
        check(not eff or first_enf < eff[0], 'effect-before-authorisation',
              {'signature': s + ':effect-first', 'log': log})
        for e in enf:
            check(e[1] in rules, 'unregistered-policy-rule',
                  {'signature': s + ':unregistered:%s' % e[1]})
        denied = [i for i, e in enumerate(log)
                  if e[0] == 'enforce' and not e[2]]
        if denied:
            reach('denied')
            check(outcome == 'denied', 'denied-but-not-403',
                  {'signature': s + ':not-403', 'outcome': outcome,
                   'log': log})
            check(not [i for i in eff if i > denied[0]] and
                  (not eff or True), 'effect-after-denial',
                  {'signature': s + ':effect-after-denial', 'log': log})
            check(not [i for i in eff if i < denied[0]],
                  'effect-before-a-denied-rule',
                  {'signature': s + ':effect-before-denial', 'log': log})
        if over.get('all_projects'):
            reach('all-projects')
            names = [e[1] for e in enf]
            admin_only = {n for n, r in rules.items()
                          if str(r.check) in ('rule:admin_only',
                                              'is_admin:True')}
            if outcome != 'denied' or len(enf) > 1:
                check(any(n.endswith(':list:all_projects') or
                          n in admin_only for n in names),
                      'cross-project-listing-without-admin-rule',
                      {'signature': s + ':all-projects', 'asked': names,
                       'log': log})
    yield Case('endpoints', case,
               needed=['ran', 'denied', 'ruleless', 'all-projects'])


# ---------------------------------------------------------------------------
# C16.2  polir: the policy registry as a formula
# ---------------------------------------------------------------------------
def _check_to_z3(chk, creds, target, rules, depth=0):
    from oslo_policy import _checks as ch
    if depth > 10:
        raise RuntimeError('rule recursion')
    if isinstance(chk, ch.TrueCheck):
        return z3.BoolVal(True)
    if isinstance(chk, ch.FalseCheck):
        return z3.BoolVal(False)
    if isinstance(chk, ch.OrCheck):
        return z3.Or(*[_check_to_z3(c, creds, target, rules, depth + 1)
                       for c in chk.rules])
    if isinstance(chk, ch.AndCheck):
        return z3.And(*[_check_to_z3(c, creds, target, rules, depth + 1)
                        for c in chk.rules])
    if isinstance(chk, ch.NotCheck):
        return z3.Not(_check_to_z3(chk.rule, creds, target, rules,
                                   depth + 1))
    if isinstance(chk, ch.RuleCheck):
        return _check_to_z3(rules[chk.match].check, creds, target, rules,
                            depth + 1)
    if isinstance(chk, ch.GenericCheck):
        if chk.kind == 'is_admin':
            want = chk.match.lower() == 'true'
            return creds['is_admin'] if want else z3.Not(creds['is_admin'])
        if chk.kind == 'project_id' and chk.match == '%(project_id)s':
            return creds['project'] == target['project']
        raise RuntimeError('untranslated generic check %s:%s'
                           % (chk.kind, chk.match))
    raise RuntimeError('untranslated check %r' % chk)


@obligation(
    'C16.2', engine='polir (oslo.policy check tree -> z3)',
    functions=['mistral.policies:list_rules',
               'mistral.policies.base:rules',
               'mistral.api.access_control:enforce'],
    bounds='every registered rule; credentials (is_admin, caller project) '
           'and target project symbolic',
    stubs=[])
def c16_2(ctx):
    """admin_only admits iff admin; admin_or_owner iff admin or same project;
    every *:list:all_projects and *:publicize rule is admin-only; no rule
    is always-true; enforce() defaults the target to the caller's own
    project"""
    boot()
    res = Result()
    rules = registered_rules()
    creds = {'is_admin': z3.Bool('is_admin'), 'project': z3.Int('project')}
    target = {'project': z3.Int('target_project')}
    n = 0

    def ask(name, formula, label, sig):
        nonlocal n
        s = z3.Solver()
        s.add(z3.Not(formula))
        r = str(s.check())
        n += 1
        res.queries += 1
        if r == 'sat':
            res.violations.append({
                'label': label, 'case': name, 'signature': sig,
                'model': {str(d): str(s.model()[d]) for d in s.model()},
                'info': {'rule': name}, 'reproduced': True})
        elif r != 'unsat':
            res.inconclusive.append('%s: %s' % (name, r))
    for name, rule in sorted(rules.items()):
        f = _check_to_z3(rule.check, creds, target, rules)
        same = creds['project'] == target['project']
        if name == 'admin_only' or name.endswith(':list:all_projects') \
                or name.endswith(':publicize'):
            ask(name, f == creds['is_admin'], 'admin-only-rule-too-weak',
                'C16.2:%s:not-admin-only' % name)
        else:
            # admin-or-owner, or stricter (admin only) - never weaker
            ask(name, z3.Implies(f, z3.Or(creds['is_admin'], same)),
                'rule-admits-a-foreign-non-admin',
                'C16.2:%s:weaker-than-admin-or-owner' % name)
            ask(name, z3.Implies(creds['is_admin'], f),
                'rule-refuses-admin', 'C16.2:%s:refuses-admin' % name)
        # never a tautology
        s = z3.Solver()
        s.add(z3.Not(f))
        res.queries += 1
        if str(s.check()) != 'sat':
            res.violations.append({
                'label': 'rule-admits-everyone', 'case': name,
                'signature': 'C16.2:%s:tautology' % name, 'model': {},
                'info': {}, 'reproduced': True})
    res.cases = len(rules)
    res.extra = {'direct_queries': res.queries, 'rules': len(rules)}
    res.samples = [{'rule': 'admin_or_owner',
                    'formula': str(_check_to_z3(
                        rules['admin_or_owner'].check, creds, target,
                        rules))}]
    res.witnesses_needed = ['translated']
    if len(rules) > 50:
        res.witnesses_found = ['translated']
    return res


# ---------------------------------------------------------------------------
# C16.4  state-changing requests are limited to the documented moves
# ---------------------------------------------------------------------------
def _guard_env(mod, log, task_state=None, with_items=False, wf_state=None,
               action_state=None):
    """db stubs that answer reads (so that the guards can be evaluated) and
    record writes / RPCs"""
    from mistral.db.v2 import api as db_api

    class Db(object):
        def transaction(self, *a, **k):
            return _Tx()

        def get_workflow_execution(self, id, fields=(), **k):
            if fields and all(getattr(f, 'key', None) == 'state'
                              for f in fields):
                return (wf_state,)
            return _Obj(id='wf-1', root_execution_id=None, name='wf',
                        state=wf_state, state_info=None,
                        to_dict=lambda: {})

        def get_task_execution(self, id, **k):
            return _Obj(id='t-1', name='t', state=task_state,
                        workflow_execution_id='wf-1',
                        spec=dict({'name': 't', 'version': '2.0',
                                   'type': 'direct', 'action': 'std.noop'},
                                  **({'with-items': 'i in [1]'}
                                     if with_items else {})),
                        to_dict=lambda: {})

        def get_action_execution(self, id, **k):
            return _Obj(id='a-1', name='std.noop', state=action_state,
                        task_execution_id=None, to_dict=lambda: {},
                        input={}, output={})

        def __getattr__(self, name):
            def call(*a, **k):
                log.append(('db', name, a, k))
                return _Obj(to_dict=lambda: {})
            return call
    return Db()


@obligation(
    'C16.4', engine='symx',
    functions=['mistral.api.controllers.v2.execution:'
               'ExecutionsController.put',
               'mistral.api.controllers.v2.execution:'
               'ExecutionsController.delete',
               'mistral.api.controllers.v2.task:TasksController.put'],
    bounds='execution update: requested state symbolic over 9 + absent, '
           'description / env present or not; execution delete: current '
           'state symbolic, force flag; task update: current and requested '
           'state symbolic over 9, reset in {unset, true, false}, '
           'with-items or not',
    stubs=['db-api reads answer from a stub row, writes and RPCs are '
           'recorded', 'acl.enforce allows'])
def c16_4(ctx):
    """an engine call is issued iff the request is a documented move:
    executions to PAUSED / RUNNING / a final state, never together with a
    description; tasks only from ERROR to RUNNING or SKIPPED (reset rules);
    unfinished executions are not deleted without force"""
    boot()
    from mistral import exceptions as exc
    from mistral.db.v2 import api as db_api
    from mistral.rpc import clients as rpc
    from mistral.api.controllers.v2 import execution as ex_mod
    from mistral.api.controllers.v2 import task as task_mod
    from wsme.types import Unset

    class Rpc(object):
        def __init__(self, log):
            self.log = log

        def __getattr__(self, name):
            def call(*a, **k):
                self.log.append(('rpc', name, a, k))
                return _Obj(to_dict=lambda: {})
            return call

    def unwrap(f):
        f = f.__func__ if hasattr(f, '__func__') else f
        while hasattr(f, '__wrapped__'):
            f = f.__wrapped__
        return f

    def run(mod, fn, args, db):
        log = db._log
        impl = db_api.IMPL
        db_api.IMPL = db
        saved = (rpc.get_engine_client, mod.acl)
        rpc.get_engine_client = lambda: Rpc(log)
        mod.acl = type('A', (), {'enforce': staticmethod(
            lambda *a, **k: True)})()
        err = None
        try:
            with env.auth_ctx('proj-a', False):
                fn(*args)
        except exc.MistralException as e:
            err = e
        except Exception as e:
            err = e
        finally:
            db_api.IMPL = impl
            rpc.get_engine_client, mod.acl = saved
        return log, err

    def case_exec_put():
        state = fresh_enum('requested', ALL + (None,))
        desc = choice('description', [None, 'new text'])
        envp = choice('env', [None, {'k': 1}])
        log = []
        db = _guard_env(ex_mod, log, wf_state='RUNNING')
        db._log = log
        body = _Obj(state=state, description=desc,
                    params={'env': envp} if envp else None)
        fn = unwrap(ex_mod.ExecutionsController.put)
        log, err = run(ex_mod, fn, (ex_mod.ExecutionsController(), 'wf-1',
                                    body), db)
        st = symx.concrete(state)
        rpcs = [e[1] for e in log if e[0] == 'rpc']
        writes = [e[1] for e in log if e[0] == 'db']
        s = 'C16.4:execution.put'
        reach('exec-put')
        want = None
        if st and not desc:
            # (an environment may only accompany RUNNING)
            if st == 'PAUSED' and not envp:
                want = 'pause_workflow'
            elif st == 'RUNNING':
                want = 'resume_workflow'
            elif st in ('SUCCESS', 'ERROR', 'CANCELLED') and not envp:
                want = 'stop_workflow'
        if want:
            reach('exec-put-rpc')
            check(rpcs == [want], 'documented-move-not-forwarded',
                  {'signature': s + ':missing', 'state': st, 'rpcs': rpcs,
                   'err': repr(err)[:100]})
        else:
            check(not rpcs, 'undocumented-state-change-forwarded',
                  {'signature': s + ':undocumented:%s' % st, 'rpcs': rpcs,
                   'desc': desc, 'env': bool(envp)})
        if st and desc:
            check(not rpcs and 'update_workflow_execution' not in writes
                  and err is not None,
                  'description-changed-together-with-state',
                  {'signature': s + ':desc-with-state'})
        if err is not None:
            check(isinstance(err, exc.MistralException),
                  'guard-failed-with-undeclared-error',
                  {'signature': s + ':undeclared', 'err': repr(err)[:150]})
    yield Case('execution.put', case_exec_put,
               needed=['exec-put', 'exec-put-rpc'])

    def case_exec_delete():
        cur = fresh_enum('current', ALL[:8])
        force = bool(fresh_bool('force'))
        log = []
        db = _guard_env(ex_mod, log, wf_state=cur)
        db._log = log
        fn = unwrap(ex_mod.ExecutionsController.delete)
        log, err = run(ex_mod, fn, (ex_mod.ExecutionsController(), 'wf-1',
                                    force), db)
        deleted = any(e[1] == 'delete_workflow_execution' for e in log)
        finished = symx.concrete(cur) in ('SUCCESS', 'ERROR', 'CANCELLED')
        reach('exec-delete')
        if deleted:
            reach('deleted')
            check(finished or force, 'unfinished-execution-deleted',
                  {'signature': 'C16.4:execution.delete:unfinished',
                   'state': symx.concrete(cur)})
        else:
            check(not (finished or force), 'finished-execution-not-deleted',
                  {'signature': 'C16.4:execution.delete:refused',
                   'err': repr(err)[:100]})
    yield Case('execution.delete', case_exec_delete,
               needed=['exec-delete', 'deleted'])

    def case_task_put():
        cur = fresh_enum('current', ALL)
        req = fresh_enum('requested', ALL)
        reset = choice('reset', [Unset, True, False])
        wi = bool(fresh_bool('with_items'))
        log = []
        db = _guard_env(task_mod, log, task_state=cur, with_items=wi,
                        wf_state='ERROR')
        db._log = log
        body = _Obj(state=req, reset=reset, name=None, env=None,
                    workflow_name=None)
        fn = unwrap(task_mod.TasksController.put)
        log, err = run(task_mod, fn, (task_mod.TasksController(), 't-1',
                                      body), db)
        rpcs = [e for e in log if e[0] == 'rpc']
        c, r = symx.concrete(cur), symx.concrete(req)
        ok = c == 'ERROR' and (
            r == 'SKIPPED' or
            (r == 'RUNNING' and reset is not Unset and (wi or reset)))
        s = 'C16.4:task.put'
        reach('task-put')
        if ok:
            reach('task-put-rpc')
            check(len(rpcs) == 1 and rpcs[0][1] == 'rerun_workflow' and
                  rpcs[0][3].get('skip') == (r == 'SKIPPED'),
                  'documented-task-move-not-forwarded',
                  {'signature': s + ':missing', 'cur': c, 'req': r,
                   'err': repr(err)[:100]})
        else:
            check(not rpcs, 'undocumented-task-move-forwarded',
                  {'signature': s + ':undocumented:%s->%s' % (c, r),
                   'reset': str(reset), 'with_items': wi})
            check(err is not None and isinstance(err,
                                                 exc.MistralException),
                  'refusal-is-not-a-declared-error',
                  {'signature': s + ':refusal', 'err': repr(err)[:120]})
    yield Case('task.put', case_task_put,
               needed=['task-put', 'task-put-rpc'])
