"""C02 - the result of a run does not depend on event order, timing or
engine caches."""
import functools

from vt import symx, minidb, env, shapes
from vt.kit import obligation, Case, boot
from vt.symx import (fresh_int, fresh_bool, fresh_enum, check, reach, note,
                     sym_and, sym_or, sym_not, implies, choice, assume)
from vt.harness.C01 import parse, FIXED_GUARDS


import re

_ID = re.compile(r'\b[a-z]+-\d{4,5}\b')


def _strip(d):
    """drop engine-internal keys; generated ids (which legitimately differ
    between two runs) are masked inside strings"""
    if isinstance(d, str):
        return _ID.sub('ID', d)
    if isinstance(d, list):
        return [_strip(x) for x in d]
    if not isinstance(d, dict):
        return d
    return {k: _strip(v) for k, v in d.items()
            if k not in ('__versions', '__task_execution', '__execution')}


def collect(w, wid):
    wf = w.wf_ex(wid)
    tasks = {}
    for t in w.tasks(wid):
        tasks[t['name']] = (t['state'], _strip(t['published']),
                            _strip(t['in_context']),
                            sorted(x[0] for x in (t['next_tasks'] or [])),
                            t['error_handled'], t['has_next_tasks'])
    return {'state': wf['state'], 'output': _strip(wf['output']),
            'tasks': tasks}


class FrozenClock(object):
    """every reading falls into the same second (timestamps are stored
    with one-second granularity: events of one second are indistinguishable
    by time)"""

    def __new__(cls):
        from vt.world import ConcreteClock

        class _F(ConcreteClock):
            def now(self):
                self.readings.append(self.t)
                return self.t
        return _F()


def one_run(text, shape, sig, preemptions, outcomes, guards, evict=False,
            defer=False, sym_ids=False, update=None, clock=None):
    from vt.world import World
    from vt.explorer import Explorer
    from mistral import expressions
    from mistral.lang import parser as spec_parser
    holder = {}
    real_eval = expressions.evaluate

    def stub(e, c):
        return holder['ex'].expr_stub(real_eval)(e, c)
    w = World([text], expr_stub=stub, defer_post_tx=defer, sym_ids=sym_ids,
              clock=clock)
    with w:
        ex = Explorer(w, sig, preemptions=preemptions, outcomes=outcomes,
                      guards=guards)
        holder['ex'] = ex
        wid = w.start('wf')
        ex.check_invariants()
        if evict or update:
            real_deliver = ex.deliver
            st = {'n': 0}

            def deliver(ev, *a, **k):
                st['n'] += 1
                if update and st['n'] == update[0]:
                    # the operator updates the DEFINITION while the run is
                    # in flight: the execution keeps the spec it started with
                    from mistral.services import workflows as wf_service
                    wf_service.update_workflows(update[1])
                    reach('definition-updated')
                if evict:
                    # an engine restart / cache eviction between any two
                    # events
                    spec_parser.clear_caches()
                return real_deliver(ev, *a, **k)
            ex.deliver = deliver
        ex.run()
        res = collect(w, wid)
    return res, ex, w


def _c02_e_case(shape, text, preemptions, evict, defer, sym_ids=False,
                update_to=None):
    def case():
        sig = 'C02.E:%s' % shape
        outcomes = {}
        guards = dict(FIXED_GUARDS.get(shape, {}))
        update = clock = None
        if update_to:
            update = (choice('update_at', [1, 2, 3, 4]), update_to)
            if choice('clock', ['ticking', 'same-second']) == 'same-second':
                clock = FrozenClock()
                reach('same-second')
        # run A: explored order (+ optional cache eviction / deferred
        # post-commit batches / solver-chosen id order / a definition
        # update in flight)
        a, ex_a, w_a = one_run(text, shape, sig, preemptions, outcomes,
                               guards, evict=evict, defer=defer,
                               sym_ids=sym_ids, update=update, clock=clock)
        # run B: FIFO delivery, warm caches, same outcomes and guards
        b, ex_b, w_b = one_run(text, shape, sig + ':fifo', 0, outcomes,
                               guards)
        reach('two-runs')
        if ex_a.used_preemptions:
            reach('reordered')
        info = {'signature': sig + ':differs', 'trace_a': ex_a.trace[-30:],
                'trace_b': ex_b.trace[-30:], 'outcomes': dict(outcomes),
                'a': a, 'b': b}
        check(a['state'] == b['state'], 'final-state-depends-on-order', info)
        def out(r):
            # the 'result' entry of a failed run is a diagnostic message
            # that lists whatever had failed at that moment
            if r['state'] != 'SUCCESS' and isinstance(r['output'], dict):
                return {k: v for k, v in r['output'].items()
                        if k != 'result'}
            return r['output']
        check(out(a) == out(b), 'output-depends-on-order', info)
        check(a['tasks'] == b['tasks'],
              'task-results-depend-on-order', info)
        check(not w_a.swallowed and not w_b.swallowed,
              'post-commit-operation-failed',
              {'signature': sig + ':post-commit-error',
               'errors': [repr(x)[:200] for x in w_a.swallowed]})
    return case


@obligation(
    'C02.E', engine='symx+world(minidb)',
    functions=['mistral.workflow.data_flow:evaluate_upstream_context',
               'mistral.workflow.data_flow:evaluate_task_outbound_context',
               'mistral.workflow.data_flow:publish_variables',
               'mistral.workflow.data_flow:evaluate_workflow_output',
               'mistral.workflow.context_versioning:merge_context_by_version',
               'mistral.workflow.context_versioning:'
               'get_in_context_with_versions',
               'mistral.workflow.direct_workflow:DirectWorkflowController.'
               'evaluate_workflow_final_context',
               'mistral.engine.tasks:Task.complete',
               'mistral.engine.tasks:Task._update_inbound_context',
               'mistral.engine.dispatcher:dispatch_workflow_commands',
               'mistral.lang.parser:get_workflow_spec_by_execution_id',
               'mistral.engine.post_tx_queue:run'],
    bounds={'quick': 'shapes fork_join, join_2_of_3_mixed, conditional, '
                     'join_fed_by_error, data_flow, data_flow_3; outcomes / '
                     'guards symbolic; run A = any order with <= 1 '
                     'out-of-order delivery (plus: the workflow DEFINITION '
                     'is updated to a different routing before the 1st-4th '
                     'delivery, with a ticking clock or everything inside '
                     'one second), in the variants {plain, spec '
                     'caches dropped before every event, post-commit batches '
                     'deferred as separate events}; run B = FIFO; compared: '
                     'final state, output, every task\'s state, published, '
                     'inbound context, routing',
            'thorough': '<= 2 out-of-order deliveries; data shapes also with '
                        'solver-chosen task id order'},
    stubs=['minidb', 'QueueRPC', 'FakeScheduler', 'FakeExecutor',
           'post-commit queue (inline / deferred)', 'expr_stub for guards',
           'real YAQL for data expressions'],
    outside='non-deterministic actions; conflicting publishes in parallel '
            'branches (excluded by the property)',
    timeout=(500, 2400))
def c02_e(ctx):
    """two runs with the same action results and guard values end in the
    same final state, task results, published variables and output whatever
    the delivery order, cache state or post-commit timing"""
    boot()
    k = ctx.pick(1, 2)
    names = ['fork_join', 'join_2_of_3_mixed', 'conditional',
             'join_fed_by_error', 'join_partial_deep']
    for n in names:
        yield Case(n + '/reorder', _c02_e_case(n, shapes.RUN_SHAPES[n], k,
                                               False, False),
                   needed=['two-runs', 'reordered'])
    for n, text in shapes.DATA_SHAPES.items():
        yield Case(n + '/reorder', _c02_e_case(n, text, k, False, False),
                   needed=['two-runs', 'reordered'])
        yield Case(n + '/evict', _c02_e_case(n, text, 1, True, False),
                   needed=['two-runs'])
        yield Case(n + '/deferred-post-commit',
                   _c02_e_case(n, text, k, False, True),
                   needed=['two-runs', 'reordered'])
        if not ctx.quick:
            yield Case(n + '/id-order',
                       _c02_e_case(n, text, 1, False, False, sym_ids=True),
                       needed=['two-runs'])
    yield Case('fork_join/evict', _c02_e_case(
        'fork_join', shapes.FORK_JOIN, 1, True, True), needed=['two-runs'])
    # the definition is updated (different routing) while the run is in
    # flight, caches are dropped before every event, and everything may
    # happen within one second
    v2 = shapes.CHAIN.replace('      on-success: b\n', '      on-success: d\n')
    assert v2 != shapes.CHAIN
    yield Case('chain/definition-updated', _c02_e_case(
        'chain', shapes.CHAIN, 0, True, False, update_to=v2),
        needed=['two-runs', 'definition-updated', 'same-second'])


# ---------------------------------------------------------------------------
# C02.3  dispatcher pre-processing: one global lock order for join tasks
# ---------------------------------------------------------------------------
@obligation(
    'C02.3', engine='symx',
    functions=['mistral.engine.dispatcher:_rearrange_commands',
               'mistral.engine.dispatcher:_compare_task_commands'],
    bounds={'quick': 'every command pattern of length <= 4 over {run, '
                     'waiting-run, noop, fail, succeed, pause}; the '
                     'unique_key of every waiting command a symbolic integer '
                     '(rendered as a fixed-width key)',
            'thorough': 'length <= 5'},
    stubs=[], timeout=(300, 1200))
def c02_3(ctx):
    """waiting (join) commands leave in non-decreasing unique_key order
    whatever order they came in; nothing is lost or invented before the
    first state command; nothing follows fail / succeed; the tail after
    pause is kept in order"""
    boot()
    import itertools
    from mistral.engine import dispatcher
    from mistral.workflow import commands

    class Spec(object):
        def __init__(self, n):
            self.n = n

        def get_name(self):
            return self.n

        def get_join(self):
            return None

    class Wf(object):
        name = 'wf'

    class Key(object):
        """a unique_key whose order is the order of a symbolic integer"""

        def __init__(self, v):
            self.v = v

        def __eq__(self, o):
            return self.v == o.v

        def __lt__(self, o):
            return self.v < o.v

        __hash__ = None

    KINDS = ('run', 'wrun', 'noop', 'fail', 'succeed', 'pause')
    nmax = ctx.pick(4, 5)

    def mk(pattern):
        def case():
            cmds = []
            for i, k in enumerate(pattern):
                sp = Spec('t%d' % i)
                if k in ('run', 'wrun'):
                    c = commands.RunTask(Wf, None, sp, {})
                    if k == 'wrun':
                        c.wait = True
                        c.unique_key = Key(symx.fresh_int('key%d' % i, 0, 9))
                elif k == 'noop':
                    c = commands.Noop(Wf, None, sp, {})
                elif k == 'fail':
                    c = commands.FailWorkflow(Wf, None, sp, {})
                elif k == 'succeed':
                    c = commands.SucceedWorkflow(Wf, None, sp, {})
                else:
                    c = commands.PauseWorkflow(Wf, None, sp, {})
                c._i = i
                cmds.append(c)
            out = dispatcher._rearrange_commands(list(cmds))
            reach('rearranged')
            sig = 'C02.3:'
            state_idx = [i for i, k in enumerate(pattern)
                         if k in ('fail', 'succeed', 'pause')]
            first = state_idx[0] if state_idx else None
            head_in = [c for c in (cmds if first is None else cmds[:first])
                       if not isinstance(c, commands.Noop)]
            if first is None:
                head_out, rest = out, []
            else:
                pos = [j for j, c in enumerate(out) if c is cmds[first]]
                check(len(pos) == 1, 'state-command-lost',
                      {'signature': sig + 'state-cmd'})
                if not pos:
                    return
                head_out, rest = out[:pos[0]], out[pos[0] + 1:]
                if first == 0 and pattern[0] != 'pause':
                    head_in = []
            check(sorted(c._i for c in head_out)
                  == sorted(c._i for c in head_in),
                  'commands-lost-or-invented',
                  {'signature': sig + 'multiset'})
            w = [c for c in head_out if isinstance(c, commands.RunTask)
                 and c.wait]
            for a, b in zip(w, w[1:]):
                reach('two-waiting')
                check(a.unique_key.v <= b.unique_key.v,
                      'waiting-commands-not-in-key-order',
                      {'signature': sig + 'lock-order'})
            if first is not None:
                if pattern[first] == 'pause':
                    tail = [c._i for c in cmds[first + 1:]
                            if not isinstance(c, commands.Noop)]
                    check([c._i for c in rest] == tail,
                          'tail-after-pause-not-kept',
                          {'signature': sig + 'pause-tail'})
                else:
                    check(rest == [], 'commands-after-fail-or-succeed',
                          {'signature': sig + 'after-final'})
        return case
    pats = []
    for n in range(1, nmax + 1):
        pats += list(itertools.product(KINDS, repeat=n))
    # group patterns into a few cases (one engine per pattern is wasteful)
    chunks = [pats[i::14] for i in range(14)]

    def group(chunk):
        def case():
            p = choice('pattern', chunk) if len(chunk) > 1 else chunk[0]
            mk(p)()
        return case
    for i, ch in enumerate(chunks):
        yield Case('patterns-%d' % i, group(ch),
                   needed=['rearranged', 'two-waiting'], max_paths=400000)


# ---------------------------------------------------------------------------
# C02.1  context merge by version: commutative / associative
# ---------------------------------------------------------------------------
@obligation(
    'C02.1', engine='symx',
    functions=['mistral.workflow.context_versioning:merge_context_by_version',
               'mistral.workflow.context_versioning:_merge_ctx',
               'mistral.workflow.context_versioning:_merge_versions'],
    timeout=(240, 1800),
    bounds='three contexts over keys {a, n.m.k (nested 3 deep)} (thorough: + n.k): presence of each '
           'key symbolic, values symbolic integers, versions symbolic >= 0; '
           'assumption: equal version of a key => equal value (branches do '
           'not publish conflicting values); unhashed and md5-hashed version '
           'keys',
    stubs=[])
def c02_1(ctx):
    """merging task contexts by version gives the same values and versions
    for every merge order (commutative, associative); the value kept for a
    key is one with the maximal version"""
    boot()
    import copy
    from oslo_config import cfg
    from mistral.workflow import context_versioning as cv
    KEYS = [('a',), ('n', 'm', 'k')] if ctx.quick else \
        [('a',), ('n', 'k'), ('n', 'm', 'k')]

    def vkey(path, hashed):
        s = '.'.join(path)
        if hashed:
            import hashlib
            return hashlib.md5(s.encode()).hexdigest()
        return s

    def build(tag, hashed):
        ctx_ = {'__versions': {}}
        meta = {}
        for path in KEYS:
            if not fresh_bool('has_%s_%s' % (tag, '_'.join(path))):
                continue
            val = fresh_int('val_%s_%s' % (tag, '_'.join(path)), 0, 3)
            ver = fresh_int('ver_%s_%s' % (tag, '_'.join(path)), 0, 2)
            d = ctx_
            for p in path[:-1]:
                d = d.setdefault(p, {})
            d[path[-1]] = val
            if bool(ver > 0):
                ctx_['__versions'][vkey(path, hashed)] = ver
            meta[path] = (val, ver)
        return ctx_, meta

    def get(d, path):
        for p in path:
            if not isinstance(d, dict) or p not in d:
                return None
            d = d[p]
        return d

    def mk(hashed):
        def case():
            cfg.CONF.set_override('hash_version_keys', hashed,
                                  group='context_versioning')
            try:
                x, mx = build('x', hashed)
                y, my = build('y', hashed)
                z, mz = build('z', hashed)
                # non-conflict: same key with the same version => same value
                for path in KEYS:
                    ms = [m[path] for m in (mx, my, mz) if path in m]
                    for i in range(len(ms)):
                        for j in range(i + 1, len(ms)):
                            assume(implies(ms[i][1] == ms[j][1],
                                           ms[i][0] == ms[j][0]))
                reach('merged')

                def m(p, q):
                    return cv.merge_context_by_version(copy.deepcopy(p),
                                                       copy.deepcopy(q))
                r1 = m(m(x, y), z)
                r2 = m(m(y, x), z)
                r3 = m(x, m(y, z))
                r4 = m(m(z, y), x)
            finally:
                cfg.CONF.clear_override('hash_version_keys',
                                        group='context_versioning')
            sig = 'C02.1:%s:' % ('md5' if hashed else 'plain')
            for path in KEYS:
                ms = [mm[path] for mm in (mx, my, mz) if path in mm]
                vals = [get(r, path) for r in (r1, r2, r3, r4)]
                if not ms:
                    continue
                for v in vals[1:]:
                    check(_same(vals[0], v), 'merge-order-changes-value',
                          {'signature': sig + 'value'})
                # the survivor carries a maximal version
                best = sym_or(*[sym_and(_same(vals[0], val),
                                        *[ver >= v2 for _, v2 in ms])
                                for val, ver in ms])
                check(best, 'stale-value-survives-merge',
                      {'signature': sig + 'stale'})
                vk = vkey(path, hashed)
                vers = [r['__versions'].get(vk, 0) for r in (r1, r2, r3, r4)]
                for v in vers[1:]:
                    check(_same(vers[0], v), 'merge-order-changes-version',
                          {'signature': sig + 'version'})
        return case

    def _same(a, b):
        if a is None or b is None:
            return a is None and b is None
        return a == b
    yield Case('plain-keys', mk(False), needed=['merged'],
               shard_depth=ctx.pick(0, 10), procs=14, max_paths=2000000)
    yield Case('md5-keys', mk(True), needed=['merged'],
               shard_depth=ctx.pick(0, 10), procs=14, max_paths=2000000)
