"""C13 - scheduled jobs run once, not early, survive crashes, only if
committed."""
import datetime

from vt import symx, minidb, env
from vt.kit import obligation, Case, boot
from vt.symx import (fresh_int, fresh_bool, fresh_time, check, reach,
                     sym_and, sym_or, sym_not, implies, choice, assume)


def _job(models, db, name, execute_at, captured_at, key='k', **kw):
    j = models.ScheduledJob(id=name, execute_at=execute_at,
                            captured_at=captured_at, key=key,
                            run_after=0, func_name='vt.harness.C13.target',
                            func_args={}, auth_ctx={}, **kw)
    db.insert_committed(j)
    return j


def _sched_conf(pickup, timeout):
    return {'scheduler': {'pickup_job_after': pickup,
                          'captured_job_timeout': timeout}}


@obligation(
    'C13.1', engine='sqlir+symx',
    functions=['mistral.db.v2.sqlalchemy.api:get_scheduled_jobs_to_start',
               'mistral.db.v2.sqlalchemy.api:get_delayed_calls_to_start'],
    bounds='one row with symbolic execute_at and captured_at (NULL or '
           'symbolic), symbolic clock readings, symbolic '
           'pickup_job_after >= 0 and captured_job_timeout >= 0, batch '
           'size in {None, 1}; two rows for the ordering clause',
    stubs=['minidb (the captured WHERE/ORDER/LIMIT trees of the real '
           'function are interpreted over the symbolic row)', 'VClock',
           'conf_shim', 'dt_shim'],
    outside='SQL engines\' own evaluation of the clause (validated on '
            'sqlite by C13.v)')
def c13_1(ctx):
    """a job is selected iff execute_at < now - pickup and (captured_at is
    NULL or captured_at <= now' - timeout); never before execute_at"""
    boot()
    from mistral.db.v2.sqlalchemy import api as sa_api, models

    def case_new():
        clock = env.VClock()
        db = minidb.MiniDB()
        pickup = fresh_int('pickup', 0, None)
        timeout = fresh_int('timeout', 0, None)
        ex_at = fresh_time('execute_at')
        cap = None if fresh_bool('captured_null') else fresh_time(
            'captured_at')
        with minidb.installed(db), clock.installed(), \
                env.conf_shim(_sched_conf(pickup, timeout), sa_api), \
                env.dt_shim(sa_api):
            _job(models, db, 'j1', ex_at, cap)
            now = clock.now()
            rows = sa_api.get_scheduled_jobs_to_start(now, choice(
                'batch', [None, 1]))
        selected = len(rows) == 1
        now2 = clock.readings[-1]
        exp = sym_and(
            ex_at < now - symx.seconds(pickup),
            True if cap is None else cap <= now2 - symx.seconds(timeout))
        if selected:
            reach('selected')
            check(exp, 'selected-but-not-due',
                  {'signature': 'C13.1:selected-not-due'})
            check(ex_at <= now, 'selected-early',
                  {'signature': 'C13.1:selected-early'})
        else:
            reach('not-selected')
            check(sym_not(exp), 'due-but-not-selected',
                  {'signature': 'C13.1:due-not-selected'})
    yield Case('scheduled_jobs/one-row', case_new,
               needed=['selected', 'not-selected'])

    def case_order():
        # two due rows, batch 1: the earlier execute_at is returned
        clock = env.VClock()
        db = minidb.MiniDB()
        a, b = fresh_time('a_at'), fresh_time('b_at')
        with minidb.installed(db), clock.installed():
            _job(models, db, 'ja', a, None)
            _job(models, db, 'jb', b, None)
            now = clock.now()
            rows = sa_api.get_scheduled_jobs_to_start(now, 1)
        pick = datetime.timedelta(seconds=60)
        assume(sym_and(a < now - pick, b < now - pick))
        reach('both-due')
        check(len(rows) == 1, 'limit-ignored',
              {'signature': 'C13.1:limit'})
        if rows:
            first = rows[0].id
            check(implies(a < b, first == 'ja'), 'order-a',
                  {'signature': 'C13.1:order'})
            check(implies(b < a, first == 'jb'), 'order-b',
                  {'signature': 'C13.1:order'})
    yield Case('scheduled_jobs/order', case_order, needed=['both-due'])

    def case_legacy():
        clock = env.VClock()
        db = minidb.MiniDB()
        ex_at = fresh_time('execution_time')
        processing = bool(fresh_bool('processing'))
        with minidb.installed(db), clock.installed():
            c = models.DelayedCall(id='c1', execution_time=ex_at,
                                   processing=processing,
                                   target_method_name='m', method_arguments={},
                                   auth_context={})
            db.insert_committed(c)
            now = clock.now()
            rows = sa_api.get_delayed_calls_to_start(now, choice(
                'batch', [None, 1]))
        selected = len(rows) == 1
        exp = sym_and(ex_at < now, not processing)
        if selected:
            reach('legacy-selected')
            check(exp, 'legacy-selected-not-due',
                  {'signature': 'C13.1:legacy-selected-not-due'})
        else:
            check(sym_not(exp), 'legacy-due-not-selected',
                  {'signature': 'C13.1:legacy-due-not-selected'})
    yield Case('delayed_calls/one-row', case_legacy,
               needed=['legacy-selected'])


@obligation(
    'C13.2', engine='sqlir+symx',
    functions=['mistral.scheduler.default_scheduler:'
               'DefaultScheduler._capture_scheduled_job',
               'mistral.db.v2.sqlalchemy.api:update_scheduled_job',
               'oslo_db.sqlalchemy.update_match:update_on_match',
               'oslo_db.sqlalchemy.update_match:manufacture_entity_criteria'],
    bounds='two capture attempts on the same job from the same snapshot '
           '(captured_at NULL or symbolic), symbolic clock, '
           'captured_job_timeout >= 1 as enforced by the option\'s min',
    stubs=['minidb (CAS criterion from oslo.db manufacture_entity_criteria)',
           'VClock'],
    outside='')
def c13_2(ctx):
    """two captures from the same snapshot cannot both succeed (the job was
    selected, so a non-NULL captured_at is older than now - timeout and the
    new value differs)"""
    boot()
    from mistral.db.v2.sqlalchemy import api as sa_api, models
    from mistral.scheduler import default_scheduler as ds

    def case():
        clock = env.VClock()
        db = minidb.MiniDB()
        timeout = fresh_int('timeout', 1, None)
        ex_at = fresh_time('execute_at')
        cap = None if fresh_bool('captured_null') else fresh_time(
            'captured_at')
        with minidb.installed(db), clock.installed(), \
                env.conf_shim(_sched_conf(60, timeout), sa_api), \
                env.dt_shim(sa_api):
            _job(models, db, 'j1', ex_at, cap)
            # both schedulers select the job from the same committed state
            snap1 = sa_api.get_scheduled_jobs_to_start(clock.now(), None)
            snap2 = sa_api.get_scheduled_jobs_to_start(clock.now(), None)
            assume(len(snap1) == 1)
            assume(len(snap2) == 1)
            reach('both-selected')
            # detached copies, as two processes would hold
            j1 = models.ScheduledJob(id='j1', captured_at=cap)
            j2 = models.ScheduledJob(id='j1', captured_at=cap)
            r1 = ds.DefaultScheduler._capture_scheduled_job(j1)
            r2 = ds.DefaultScheduler._capture_scheduled_job(j2)
        check(r1 is True, 'first-capture-failed',
              {'signature': 'C13.2:first-capture-failed'})
        check(not (r1 and r2), 'double-capture',
              {'signature': 'C13.2:double-capture'})
        row = db.all_rows(models.ScheduledJob)[0]
        check(row['captured_at'] is not None, 'captured_at-not-set',
              {'signature': 'C13.2:captured_at-not-set'})
    yield Case('capture-twice', case, needed=['both-selected'])


def target(**kw):
    pass


# ---------------------------------------------------------------------------
# C13.3  the real DefaultScheduler, k instances racing over the store
# ---------------------------------------------------------------------------
INVOKED = []        # (job key, clock reading at invocation), per path
_CLOCK = [None]
_ACTS = [None]


def target(**kw):
    # entering the job's function is a point where the process may die
    # (after the store operations that precede it have committed)
    if _ACTS[0] is not None:
        _ACTS[0].hand_off('invoke')
    INVOKED.append((kw.get('tag'), _CLOCK[0].now()))


class _FakeCond(object):
    """threading.Condition stand-in: wait() is a hand-off point; after
    ``max_waits`` waits the dispatcher is told to stop."""

    def __init__(self, sched, acts, max_waits):
        self.sched, self.acts, self.max_waits = sched, acts, max_waits
        self.waits = 0

    def __enter__(self):
        return self

    def __exit__(self, *a):
        return False

    def wait(self, timeout=None):
        # threading.Condition.wait: True if woken by notify(), False if the
        # timeout elapsed
        self.waits += 1
        if self.waits >= self.max_waits:
            self.sched._stopped = True
        self.notified = False
        self.acts.hand_off('wait')
        woken = getattr(self, 'notified', False)
        self.notified = False
        if timeout is None:
            return True
        return woken

    def notify(self, n=1):
        self.notified = True

    notify_all = notify


class _Inline(object):
    errors = []

    def submit(self, fn, *a, **k):
        # a ThreadPoolExecutor keeps the exception inside the future
        try:
            fn(*a, **k)
        except Exception as e:
            _Inline.errors.append(type(e).__name__)

    def shutdown(self, wait=True):
        pass


class _Rollback(Exception):
    pass


def _mk_sched(ds, acts, max_waits):
    class Conf(object):
        fixed_delay = 1
        random_delay = 0
        batch_size = None
        in_memory_workers = 1
    s = ds.DefaultScheduler(Conf)
    s._executor.shutdown(wait=False)
    s._executor = _Inline()
    s._cond = _FakeCond(s, acts, max_waits)
    s._stopped = False
    return s


def _c13_3_case(n_pollers, polls, run_afters, crash_budget, max_waits,
                timeout_cfg=30, pickup_cfg=60, commits=None, two_jobs=False):
    from vt import actors as A
    from mistral.db.v2.sqlalchemy import api as sa_api, models
    from mistral.db.v2 import api as db_api
    from mistral.scheduler import default_scheduler as ds
    from mistral.scheduler import base as sched_base

    def case():
        del INVOKED[:]
        clock = env.VClock()
        _CLOCK[0] = clock
        db = minidb.MiniDB()
        acts = A.Actors(max_steps=400, crash_budget=crash_budget)
        A.attach(db, acts)
        # (only where a crash can be delivered there: without one the extra
        # hand-off adds interleavings but no behaviour)
        _ACTS[0] = acts if crash_budget else None
        if run_afters == 'sym':
            run_after = fresh_int('run_after', 0, None)
        else:
            run_after = choice('run_after', run_afters)
        commit = commits if isinstance(commits, bool) else bool(
            fresh_bool('commit'))
        info = {'persist_at': None, 'captures': [], 'deletes': []}
        with minidb.installed(db), clock.installed(), env.dt_shim(ds):
            s0 = _mk_sched(ds, acts, max_waits)
            others = [_mk_sched(ds, acts, 1) for _ in range(n_pollers)]

            # observe captures / deletes (wrappers around the real methods)
            real_capture = ds.DefaultScheduler._capture_scheduled_job

            def capture(job):
                # what this capturer saw as the previous capture: a capture
                # whose transaction was rolled back (crash before the
                # commit) was never visible to anybody
                seen = job.captured_at
                ok = real_capture(job)
                if ok:
                    info['captures'].append((acts.me().name,
                                             job.captured_at))
                    info.setdefault('seen', []).append(
                        (seen, job.captured_at))
                return ok
            ds.DefaultScheduler._capture_scheduled_job = staticmethod(capture)
            real_delete = ds.DefaultScheduler._delete_scheduled_job

            def delete(self, job):
                real_delete(self, job)
                info['deletes'].append((acts.me().name, clock.now()))
            ds.DefaultScheduler._delete_scheduled_job = delete

            def engine():
                try:
                    with db_api.transaction():
                        job = sched_base.SchedulerJob(
                            run_after=run_after,
                            func_name='vt.harness.C13.target',
                            func_args={'tag': 'J'}, key='K')
                        s0.schedule(job)
                        row = s0._heap[0][2]
                        info['execute_at'] = row.execute_at
                        if two_jobs:
                            # a second, far-away job scheduled while the
                            # first one is pending (wakes the dispatcher)
                            acts.hand_off('between-jobs')
                            s0.schedule(sched_base.SchedulerJob(
                                run_after=3600,
                                func_name='vt.harness.C13.target',
                                func_args={'tag': 'FAR'}, key='K2'))
                            far = [e[2] for e in s0._heap
                                   if e[2].key == 'K2']
                            if far:
                                info['far_execute_at'] = far[0].execute_at
                        if not commit:
                            raise _Rollback()
                except _Rollback:
                    pass

            def dispatcher():
                s0._dispatcher()

            def poller(s):
                def run():
                    for _ in range(polls):
                        try:
                            s._process_store_jobs()
                        except Exception as e:  # as _job_store_checker does
                            info.setdefault('poll_errors', []).append(
                                type(e).__name__)
                return run
            acts.spawn('E', engine)
            acts.spawn('D0', dispatcher, may_crash=True)
            for i, s in enumerate(others):
                acts.spawn('P%d' % (i + 1), poller(s), may_crash=True)
            try:
                acts.run()
            finally:
                ds.DefaultScheduler._capture_scheduled_job = \
                    staticmethod(real_capture)
                ds.DefaultScheduler._delete_scheduled_job = real_delete
            symx.note('schedule', acts.schedule_str())
            if acts.truncated:
                check(False, 'step-bound-too-small',
                      {'signature': 'C13.3:bound'})
            ex_at = info.get('execute_at')
            if two_jobs:
                reach('two-jobs')
                for tag, at in INVOKED:
                    when = ex_at if tag == 'J' else info.get(
                        'far_execute_at')
                    if when is not None:
                        check(at >= when, 'invoked-early',
                              {'signature': 'C13.3:early'})
                return
            rows = db.all_rows(models.ScheduledJob)
            n_inv = len(INVOKED)
            tmo = datetime.timedelta(seconds=timeout_cfg)
            sig = 'C13.3:'
            # (1) never early
            for tag, at in INVOKED:
                check(at >= ex_at, 'invoked-early',
                      {'signature': sig + 'early'})
            # (2) rolled back => never run, nothing left behind
            if not commit:
                reach('rolled-back')
                check(n_inv == 0, 'rolled-back-job-invoked',
                      {'signature': sig + 'rollback-invoked'})
                check(len(rows) == 0, 'rolled-back-job-persisted',
                      {'signature': sig + 'rollback-persisted'})
                return
            # (3) a re-capture only after the capture timeout
            caps = info['captures']
            for prev, mine in info.get('seen', []):
                if prev is None:
                    continue
                reach('recaptured')
                check(mine >= prev + tmo, 'recapture-before-timeout',
                      {'signature': sig + 'recapture-early'})
            # (4) once a capturer has deleted the job nobody captures again
            if info['deletes']:
                reach('deleted')
                check(len(rows) == 0, 'deleted-job-still-stored',
                      {'signature': sig + 'delete-lost'})
            # (5) exactly once when every capturer finished in time
            crashed = [a.name for a in acts.actors if a.crashed]
            if not crashed and n_inv > 1:
                reach('double-invocation')
                check(sym_or(*[c2 >= c1 + tmo for (_, c1), (_, c2)
                               in zip(caps, caps[1:])]),
                      'invoked-twice-within-timeout',
                      {'signature': sig + 'double'})
            if n_inv >= 1:
                reach('invoked')
            if crashed:
                reach('crashed')
            # (6) not lost: either it ran, or it is still in the store
            check(n_inv >= 1 or len(rows) == 1, 'job-lost',
                  {'signature': sig + 'lost'})
            # (7) bounded liveness: a late poll by a live instance runs it
            if n_inv == 0:
                reach('pending-at-end')
                late = _mk_sched(ds, acts, 1)
                t = clock.now()
                last_cap = rows[0]['captured_at'] if rows else None
                assume(t > ex_at + datetime.timedelta(seconds=pickup_cfg))
                if last_cap is not None:
                    assume(t >= last_cap + tmo)
                late._process_store_jobs()
                check(len(INVOKED) == 1, 'committed-job-never-run',
                      {'signature': sig + 'never-run'})
                check(len(db.all_rows(models.ScheduledJob)) == 0,
                      'late-run-not-deleted',
                      {'signature': sig + 'late-delete'})
    return case


@obligation(
    'C13.3', engine='symx-actors+minidb',
    functions=['mistral.scheduler.default_scheduler:DefaultScheduler.schedule',
               'mistral.scheduler.default_scheduler:'
               'DefaultScheduler._persist_job',
               'mistral.scheduler.default_scheduler:'
               'DefaultScheduler._schedule_in_memory',
               'mistral.scheduler.default_scheduler:'
               'DefaultScheduler._dispatcher',
               'mistral.scheduler.default_scheduler:'
               'DefaultScheduler._process_memory_job',
               'mistral.scheduler.default_scheduler:'
               'DefaultScheduler._process_store_jobs',
               'mistral.scheduler.default_scheduler:'
               'DefaultScheduler._capture_scheduled_job',
               'mistral.scheduler.default_scheduler:'
               'DefaultScheduler._delete_scheduled_job',
               'mistral.db.v2.sqlalchemy.api:transaction',
               'mistral.db.v2.sqlalchemy.api:create_scheduled_job',
               'mistral.db.v2.sqlalchemy.api:get_scheduled_jobs_to_start',
               'mistral.db.v2.sqlalchemy.api:update_scheduled_job',
               'mistral.db.v2.sqlalchemy.api:delete_scheduled_job'],
    bounds={'quick': '1 job, run_after symbolic >= 0; scheduling '
                     'transaction commits / rolls back; actors: engine tx, '
                     'in-memory dispatcher of instance 0 (<=2 wake-ups), 1 '
                     'store poller of instance 1 (1 poll); every DB '
                     'statement a hand-off; all interleavings; symbolic '
                     'clock; plus one crash of the dispatcher or the poller '
                     'at any hand-off (dispatcher limited to one wait)',
            'thorough': 'rollback with 2 pollers; commit with the poller '
                        'polling twice and 3 dispatcher wake-ups; commit '
                        'with one crash of the dispatcher or the poller at '
                        'any hand-off'},
    stubs=['minidb', 'VClock', 'threading.Condition -> hand-off',
           'ThreadPoolExecutor -> inline', 'job target -> recorder'],
    outside='more than 1 job / 3 instances; ThreadPoolExecutor internals; '
            'liveness beyond the bounded epilogue (one late poll)',
    timeout=(300, 3600))
def c13_3(ctx):
    """not early; rolled back => never run; re-capture only after the
    timeout; exactly once if capturers finish in time; never lost; a late
    poll runs a pending committed job"""
    boot()
    needed = ['invoked', 'deleted', 'pending-at-end', 'recaptured']
    if ctx.quick:
        yield Case('rollback/E+D0+P1', _c13_3_case(1, 1, 'sym', 0, 2,
                                                   commits=False),
                   needed=['rolled-back'])
        yield Case('commit/E+D0+P1', _c13_3_case(1, 1, 'sym', 0, 2,
                                                 commits=True),
                   needed=needed, shard_depth=12, procs=12)
        yield Case('two-jobs/E+D0', _c13_3_case(0, 0, 'sym', 0, 3,
                                                commits=True, two_jobs=True),
                   needed=['two-jobs'])
        # one crash of the dispatcher or the poller at any hand-off (store
        # statement, commit, entering the job's function)
        yield Case('commit/E+D0+P1/crash1', _c13_3_case(1, 1, 'sym', 1, 1,
                                                        commits=True),
                   needed=['invoked', 'crashed'], shard_depth=12, procs=12,
                   max_paths=2000000)
    else:
        yield Case('commit/E+D0+P1/crash1', _c13_3_case(1, 1, 'sym', 1, 2,
                                                        commits=True),
                   needed=needed + ['crashed'], shard_depth=14, procs=14,
                   max_paths=2000000)
        yield Case('rollback/E+D0+P1+P2', _c13_3_case(2, 1, 'sym', 0, 3,
                                                      commits=False),
                   needed=['rolled-back'], shard_depth=10, procs=14)
        yield Case('commit/E+D0+P1x2', _c13_3_case(1, 2, 'sym', 0, 3,
                                                   commits=True),
                   needed=needed, shard_depth=14, procs=14,
                   max_paths=2000000)
        yield Case('two-jobs/E+D0+P1', _c13_3_case(1, 1, 'sym', 0, 4,
                                                   commits=True,
                                                   two_jobs=True),
                   needed=['two-jobs'], shard_depth=12, procs=14)


@obligation(
    'C13.4', engine='symx+minidb',
    functions=['mistral.scheduler.default_scheduler:'
               'DefaultScheduler.has_scheduled_jobs',
               'mistral.db.v2.sqlalchemy.api:get_scheduled_jobs_count',
               'mistral.db.v2.sqlalchemy.filters:apply_filters'],
    bounds='<=2 jobs in the store and <=2 in this instance\'s memory, each '
           'with a symbolic key in {K, K2, None} and captured_at NULL / set; '
           'filters: key given or not, processing in {absent, False, True}',
    stubs=['minidb'])
def c13_4(ctx):
    """has_scheduled_jobs(key, processing) is true iff some job with that key
    in memory or in the store has the requested processing status"""
    boot()
    from mistral.db.v2.sqlalchemy import models
    from mistral.scheduler import default_scheduler as ds
    import datetime as dt
    KEYS = ('K', 'K2', None)
    T0 = dt.datetime(2020, 1, 1)

    def case():
        db = minidb.MiniDB()
        n_store = choice('n_store', [0, 1, 2])
        n_mem = choice('n_mem', [0, 1, 2])
        flt_key = choice('flt_key', [True, False])
        flt_proc = choice('flt_proc', ['absent', False, True])
        jobs = []
        with minidb.installed(db):
            s = _mk_sched(ds, None, 1)
            for i in range(n_store):
                key = symx.fresh_enum('skey%d' % i, KEYS)
                cap = None if fresh_bool('scap%d' % i) else T0
                db.put(models.ScheduledJob, id='s%d' % i, key=key,
                       captured_at=cap, execute_at=T0, func_name='f')
                jobs.append((key, cap))
            for i in range(n_mem):
                key = symx.fresh_enum('mkey%d' % i, KEYS)
                cap = None if fresh_bool('mcap%d' % i) else T0
                j = models.ScheduledJob(id='m%d' % i, key=key,
                                        captured_at=cap, execute_at=T0)
                s.in_memory_jobs[j.id] = j
                jobs.append((key, cap))
            flt = {}
            if flt_key:
                flt['key'] = 'K'
            if flt_proc != 'absent':
                flt['processing'] = flt_proc
            got = s.has_scheduled_jobs(**flt)
        terms = []
        for key, cap in jobs:
            t = True
            if flt_key:
                t = sym_and(t, key == 'K')
            if flt_proc is True:
                t = sym_and(t, cap is not None)
            elif flt_proc is False:
                t = sym_and(t, cap is None)
            terms.append(t)
        exp = sym_or(*terms)
        if got:
            reach('true')
            check(exp, 'reports-job-that-does-not-exist',
                  {'signature': 'C13.4:false-positive'})
        else:
            reach('false')
            check(sym_not(exp), 'misses-pending-job',
                  {'signature': 'C13.4:false-negative'})
    yield Case('has_scheduled_jobs', case, needed=['true', 'false'])
