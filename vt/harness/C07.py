"""C07 - with-items runs each item once, within the concurrency limit,
results in order."""
from vt import symx, shapes, scenario
from vt.kit import obligation, Case, boot
from vt.symx import (fresh_bool, check, reach, note, choice, assume)

WF = """
version: '2.0'
wf:
  input:
    - items
    - c: 0
  output:
    res: <% $.get(res, none) %>
  tasks:
    t:
      with-items: i in <% $.items %>
@@CONC@@
      action: std.echo output=<% $.i %>
      publish:
        res: <% task().result %>
      publish-on-error:
        res: <% task().result %>
      on-success: after
    after:
      action: std.noop
"""


def wf_text(conc):
    line = {'none': '', 'literal1': '      concurrency: 1',
            'literal2': '      concurrency: 2',
            'expr': '      concurrency: <% $.c %>'}[conc]
    return WF.replace('@@CONC@@', line)


def _c07_case(conc, nmax, preemptions, rerun=False):
    def case():
        from mistral_lib import actions as ml
        text = wf_text(conc)
        sig = 'C07.E:%s%s' % (conc, ':rerun' if rerun else '')
        n = choice('n', list(range(0, nmax + 1)))
        cval = None
        if conc == 'expr':
            cval = choice('c', [1, 2, n + 1])
        elif conc.startswith('literal'):
            cval = int(conc[-1])
        from vt.world import World
        w = World([text])
        with w:
            from vt.explorer import Explorer
            ex = Explorer(w, sig, preemptions=preemptions)
            wid = w.start('wf', {'items': list(range(n)), 'c': cval or 0})
            ex.check_invariants()
            tname = 't'

            def index_of(ev):
                for a in w.rows('ActionExecution'):
                    if a['id'] == ev.payload['id']:
                        return (a['runtime_context'] or {}).get('index')
                return None

            def result_for(ev):
                tid = ev.payload['exec_ctx'].get('task_execution_id')
                trow = [t for t in w.rows('TaskExecution')
                        if t['id'] == tid][0]
                if trow['name'] != tname:
                    return ml.Result(data='ok')
                i = index_of(ev)
                out = ex.outcome('item%s' % i)
                if out == 'SUCCESS':
                    return ml.Result(data='r%s' % i)
                return ml.Result(error='boom%s' % i)
            ex.result_for = result_for
            info = {'n': n, 'concurrency': cval}

            def inv():
                t = w.task(tname, wid)
                if t is None:
                    return
                acts = w.actions(t['id'])
                running = [a for a in acts if a['state'] == 'RUNNING']
                if cval:
                    check(len(running) <= cval,
                          'more-items-running-than-concurrency',
                          dict(info, signature=sig + ':concurrency',
                               running=len(running),
                               trace=ex.trace[-15:]))
                live = {}
                for a in acts:
                    i = (a['runtime_context'] or {}).get('index')
                    if a['state'] == 'RUNNING' or a['accepted']:
                        live[i] = live.get(i, 0) + 1
                check(all(v == 1 for v in live.values()),
                      'item-running-or-accepted-twice',
                      dict(info, signature=sig + ':item-twice', live=live,
                           trace=ex.trace[-15:]))
                check(all(i is not None and 0 <= i < n for i in live),
                      'item-index-out-of-range',
                      dict(info, signature=sig + ':index'))
                if t['state'] in ('SUCCESS', 'ERROR'):
                    check(not running,
                          'task-completed-with-running-items',
                          dict(info, signature=sig + ':early-complete',
                               trace=ex.trace[-15:]))
            real_deliver = ex.deliver

            def deliver(ev, *a, **k):
                real_deliver(ev, *a, **k)
                inv()
            ex.deliver = deliver
            ex.run()
            reach('quiescent')

            def final(expect_rows):
                t = w.task(tname, wid)
                wf = w.wf_ex(wid)
                acts = w.actions(t['id'])
                outs = [ex.outcomes.get('item%d' % i, 'SUCCESS')
                        for i in range(n)]
                want = 'ERROR' if 'ERROR' in outs else 'SUCCESS'
                fi = dict(info, trace=ex.trace[-25:], outcomes=outs,
                          task=t['state'], wf=wf['state'])
                check(t['state'] == want, 'with-items-final-state-wrong',
                      dict(fi, signature=sig + ':final-state'))
                check(wf['state'] == want, 'workflow-final-state-wrong',
                      dict(fi, signature=sig + ':wf-final-state'))
                acc = sorted((a['runtime_context']['index'])
                             for a in acts if a['accepted'])
                check(acc == list(range(n)),
                      'not-exactly-one-accepted-result-per-item',
                      dict(fi, signature=sig + ':per-item', accepted=acc))
                per = {}
                for a in acts:
                    i = a['runtime_context']['index']
                    per[i] = per.get(i, 0) + 1
                check(per == expect_rows(outs), 'item-execution-count-wrong',
                      dict(fi, signature=sig + ':exec-count', per=per,
                           want=expect_rows(outs)))
                exp = [('r%d' % i) if o == 'SUCCESS' else ('boom%d' % i)
                       for i, o in enumerate(outs)]
                got = (t['published'] or {}).get('res')
                check(got == exp, 'results-not-in-item-order',
                      dict(fi, signature=sig + ':order', got=got, want=exp))
                if want == 'SUCCESS':
                    check(w.task('after', wid) is not None and
                          wf['output'].get('res') == exp,
                          'output-or-follow-up-wrong',
                          dict(fi, signature=sig + ':output',
                               output=wf['output']))
                return outs
            outs = final(lambda o: {i: 1 for i in range(n)})
            if n == 0:
                reach('empty-list')
            if cval and n > cval:
                reach('throttled')
            if not rerun:
                return
            assume('ERROR' in outs)
            reach('first-run-failed')
            reset = choice('reset', [True, False])
            first = list(outs)
            for i in range(n):
                if reset or first[i] == 'ERROR':
                    ex.outcomes['item%d' % i] = choice('new%d' % i,
                                                       ['SUCCESS', 'ERROR'])
            ex.rerun_allowed = True
            t = w.task(tname, wid)
            r, errs = ex.operator('rerun_workflow', t['id'], reset=reset)
            check(not errs, 'rerun-refused',
                  dict(info, signature=sig + ':rerun-refused',
                       errors=[repr(e)[:200] for e in errs]))
            ex.run()
            reach('rerun-done')
            final(lambda o: {i: (2 if (reset or first[i] == 'ERROR') else 1)
                             for i in range(n)})
    return case


ABNORMAL_WF = """
version: '2.0'
wf:
  output:
    res: <% $.get(res, none) %>
  tasks:
    t:
      with-items: i in [0, 1, 2]
      concurrency: 2
@@TIMEOUT@@
      action: std.echo output=<% $.i %>
      publish:
        res: <% task().result %>
      on-success: after
    after:
      action: std.noop
"""


def _c07_abnormal_rerun_case(kind):
    """the with-items task ends abnormally while items are still in flight -
    one item is cancelled, or the task's timeout fires - the in-flight
    results arrive late, then the task is rerun (reset on / off): the second
    pass must run every item that has no accepted result exactly once and
    finish SUCCESS with ordered results"""
    def case():
        from vt.world import World
        from vt.explorer import Explorer
        from mistral_lib import actions as ml
        sig = 'C07.abnormal:%s' % kind
        text = ABNORMAL_WF.replace(
            '@@TIMEOUT@@', '      timeout: 50' if kind == 'timeout' else '')
        w = World([text])
        with w:
            ex = Explorer(w, sig, preemptions=0)
            ex.rerun_allowed = True
            ex.result_for = lambda ev: ml.Result(data='never used')
            wid = w.start('wf')
            ex.check_invariants()

            def index_of(ev):
                for a in w.rows('ActionExecution'):
                    if a['id'] == ev.payload['id']:
                        return (a['runtime_context'] or {}).get('index')

            def drain(hold_actions, skip_timer=True):
                for _ in range(80):
                    evs = [e for e in w.events
                           if not (hold_actions and e.kind == 'action')
                           and not (skip_timer and e.kind == 'job' and
                                    'fail_task_if_incomplete' in e.label)]
                    if not evs:
                        return
                    ev = evs[0]
                    ex.deliver(ev, ml.Result(data='r%s' % index_of(ev))
                               if ev.kind == 'action' else None)
            drain(True)
            acts = [e for e in w.events if e.kind == 'action']
            assume(len(acts) == 2)
            t = w.task('t', wid)
            if kind == 'cancel-item':
                victim = choice('cancelled_item', [0, 1])
                ev = [e for e in acts if index_of(e) == victim][0]
                ex.deliver(ev, ml.Result(error='cancelled', cancel=True))
                drain(True)
                t = w.task('t', wid)
                assume(t['state'] == 'CANCELLED')
            else:
                timer = [e for e in w.events if e.kind == 'job' and
                         'fail_task_if_incomplete' in e.label]
                assume(len(timer) == 1)
                ex.deliver(timer[0])
                drain(True)
                t = w.task('t', wid)
                assume(t['state'] == 'ERROR')
            reach('ended-with-items-in-flight')
            # the results of the items still in flight arrive late
            # ... before the rerun, or only after it (then the second pass
            # finds them still in progress)
            late = choice('late_results', ['before-rerun', 'after-rerun'])
            if late == 'before-rerun':
                drain(False)
            first_accepted = sorted(
                a['runtime_context']['index'] for a in w.actions(t['id'])
                if a['accepted'] and a['state'] == 'SUCCESS')
            reset = choice('reset', [True, False])
            r, errs = ex.operator('rerun_workflow', t['id'], reset=reset)
            info = {'late': late, 'reset': reset,
                    'first_accepted': first_accepted,
                    'errors': [repr(e)[:200] for e in errs]}
            check(not errs, 'rerun-refused',
                  dict(info, signature=sig + ':rerun-refused'))
            n_before = {}
            for a in w.actions(t['id']):
                i = a['runtime_context']['index']
                n_before[i] = n_before.get(i, 0) + 1

            def inv():
                tt = w.task('t', wid)
                acts_ = w.actions(tt['id'])
                running = [a for a in acts_ if a['state'] == 'RUNNING'
                           and (a['runtime_context'] or {}).get('index')
                           is not None]
                live = {}
                for a in acts_:
                    i = (a['runtime_context'] or {}).get('index')
                    if a['accepted'] or a['state'] == 'RUNNING':
                        live[i] = live.get(i, 0) + 1
                check(all(v == 1 for v in live.values()),
                      'item-running-or-accepted-twice',
                      dict(info, signature=sig + ':item-twice', live=live,
                           trace=ex.trace[-15:]))
                if tt['state'] in ('SUCCESS', 'ERROR') and \
                        late == 'before-rerun':
                    check(not running, 'task-completed-with-running-items',
                          dict(info, signature=sig + ':early-complete',
                               trace=ex.trace[-15:]))
            real_deliver = ex.deliver

            def deliver(ev, *a, **k):
                real_deliver(ev, *a, **k)
                inv()
            ex.deliver = deliver
            drain(False)
            reach('rerun-done')
            t = w.task('t', wid)
            wf = w.wf_ex(wid)
            acts_ = w.actions(t['id'])
            fi = dict(info, trace=ex.trace[-30:], task=t['state'],
                      wf=wf['state'],
                      ctx=(t['runtime_context'] or {}).get('with_items'))
            check(t['state'] == 'SUCCESS' and wf['state'] == 'SUCCESS' and
                  w.task('after', wid) is not None,
                  'with-items-final-state-wrong',
                  dict(fi, signature=sig + ':final-state'))
            acc = sorted(a['runtime_context']['index'] for a in acts_
                         if a['accepted'])
            check(acc == [0, 1, 2],
                  'not-exactly-one-accepted-result-per-item',
                  dict(fi, signature=sig + ':per-item', accepted=acc))
            check((t['published'] or {}).get('res') == ['r0', 'r1', 'r2'],
                  'results-not-in-item-order',
                  dict(fi, signature=sig + ':order',
                       got=(t['published'] or {}).get('res')))
            if not reset and late == 'before-rerun':
                # a partial rerun leaves the items that succeeded alone
                for i in first_accepted:
                    n = len([a for a in acts_
                             if a['runtime_context']['index'] == i])
                    check(n == n_before.get(i, 0),
                          'partial-rerun-re-executed-a-successful-item',
                          dict(fi, signature=sig + ':partial', item=i))
    return case


RETRY_WF = """
version: '2.0'
wf:
  input:
    - items
  output:
    res: <% $.get(res, none) %>
  tasks:
    t:
      with-items: i in <% $.items %>
@@CONC@@
      action: std.echo output=<% $.i %>
      retry:
        count: 1
        delay: 0
      publish:
        res: <% task().result %>
      on-success: after
    after:
      action: std.noop
"""


def _c07_retry_case(conc, nmax, preemptions):
    """with-items + retry (one more iteration) + concurrency: a second pass
    over the items driven by the retry policy instead of an operator"""
    def case():
        from mistral_lib import actions as ml
        from vt.world import World
        from vt.explorer import Explorer
        line = {'none': '', 'literal1': '      concurrency: 1',
                'literal2': '      concurrency: 2'}[conc]
        cval = int(conc[-1]) if conc != 'none' else None
        sig = 'C07.retry:%s' % conc
        n = choice('n', list(range(1, nmax + 1)))
        w = World([RETRY_WF.replace('@@CONC@@', line)])
        with w:
            ex = Explorer(w, sig, preemptions=preemptions)
            ex.rerun_allowed = True
            wid = w.start('wf', {'items': list(range(n))})
            ex.check_invariants()

            def result_for(ev):
                tid = ev.payload['exec_ctx'].get('task_execution_id')
                trow = [t for t in w.rows('TaskExecution')
                        if t['id'] == tid][0]
                if trow['name'] != 't':
                    return ml.Result(data='ok')
                me = [a for a in w.rows('ActionExecution')
                      if a['id'] == ev.payload['id']][0]
                i = (me['runtime_context'] or {}).get('index')
                k = len([a for a in w.actions(tid)
                         if (a['runtime_context'] or {}).get('index') == i
                         and a['id'] != me['id']
                         and a['state'] != 'RUNNING'])
                out = ex.outcome('it%d_%d' % (k, i))
                return ml.Result(data='r%d_%d' % (k, i)) \
                    if out == 'SUCCESS' else ml.Result(error='boom')
            ex.result_for = result_for
            info = {'n': n, 'concurrency': cval}

            def inv():
                t = w.task('t', wid)
                if t is None:
                    return
                acts = w.actions(t['id'])
                running = [a for a in acts if a['state'] == 'RUNNING']
                if cval:
                    check(len(running) <= cval,
                          'more-items-running-than-concurrency',
                          dict(info, signature=sig + ':concurrency',
                               running=len(running), trace=ex.trace[-15:]))
                live = {}
                for a in acts:
                    i = (a['runtime_context'] or {}).get('index')
                    if a['state'] == 'RUNNING' or a['accepted']:
                        live[i] = live.get(i, 0) + 1
                check(all(v == 1 for v in live.values()),
                      'item-running-or-accepted-twice',
                      dict(info, signature=sig + ':item-twice', live=live,
                           trace=ex.trace[-15:]))
                if t['state'] in ('SUCCESS', 'ERROR'):
                    check(not running, 'task-completed-with-running-items',
                          dict(info, signature=sig + ':early-complete',
                               trace=ex.trace[-15:]))
            real_deliver = ex.deliver

            def deliver(ev, *a, **k):
                real_deliver(ev, *a, **k)
                inv()
            ex.deliver = deliver
            ex.run()
            reach('quiescent')
            t = w.task('t', wid)
            wf = w.wf_ex(wid)
            acts = w.actions(t['id'])
            per = {}
            for a in acts:
                i = a['runtime_context']['index']
                per[i] = per.get(i, 0) + 1
            fi = dict(info, trace=ex.trace[-30:], outcomes=dict(ex.outcomes),
                      task=t['state'], wf=wf['state'], per=per)
            check(wf['state'] in ('SUCCESS', 'ERROR') and
                  t['state'] == wf['state'],
                  'run-not-finished', dict(fi, signature=sig + ':final'))
            first_failed = any(ex.outcomes.get('it0_%d' % i) == 'ERROR'
                               for i in range(n))
            if first_failed:
                reach('retried')
            check(all(v <= 2 for v in per.values()) and
                  sorted(per) == list(range(n)),
                  'item-executed-too-often-or-never',
                  dict(fi, signature=sig + ':exec-count'))
            acc = {}
            for a in acts:
                if a['accepted']:
                    acc.setdefault(a['runtime_context']['index'],
                                   []).append(a)
            check(sorted(acc) == list(range(n)) and
                  all(len(v) == 1 for v in acc.values()),
                  'not-exactly-one-accepted-result-per-item',
                  dict(fi, signature=sig + ':per-item',
                       accepted=sorted(acc)))
            if sorted(acc) == list(range(n)) and \
                    all(len(v) == 1 for v in acc.values()):
                states = [acc[i][0]['state'] for i in range(n)]
                want = 'ERROR' if 'ERROR' in states else 'SUCCESS'
                check(t['state'] == want, 'with-items-final-state-wrong',
                      dict(fi, signature=sig + ':final-state', want=want))
                if want == 'SUCCESS':
                    exp = [(acc[i][0]['output'] or {}).get('result')
                           for i in range(n)]
                    check((t['published'] or {}).get('res') == exp and
                          w.task('after', wid) is not None,
                          'results-not-in-item-order',
                          dict(fi, signature=sig + ':order',
                               got=(t['published'] or {}).get('res'),
                               want=exp))
            if not first_failed:
                check(all(v == 1 for v in per.values()),
                      'retried-without-a-failure',
                      dict(fi, signature=sig + ':spurious-retry'))
            else:
                # the task ended ERROR only after the retry was used
                if t['state'] == 'ERROR':
                    check(any(v == 2 for v in per.values()),
                          'failed-without-using-the-retry',
                          dict(fi, signature=sig + ':no-retry'))
    return case


@obligation(
    'C07.E', engine='symx+world(minidb)',
    functions=['mistral.engine.tasks:WithItemsTask.on_action_complete',
               'mistral.engine.tasks:WithItemsTask._schedule_actions',
               'mistral.engine.tasks:WithItemsTask._get_next_indexes',
               'mistral.engine.tasks:WithItemsTask._increase_capacity',
               'mistral.engine.tasks:WithItemsTask._decrease_capacity',
               'mistral.engine.tasks:WithItemsTask.is_with_items_completed',
               'mistral.engine.tasks:WithItemsTask._get_final_state',
               'mistral.engine.tasks:WithItemsTask._prepare_runtime_context',
               'mistral.engine.tasks:RegularTask._reset_actions',
               'mistral.engine.task_handler:schedule_on_action_complete',
               'mistral.engine.task_handler:_scheduled_on_action_complete',
               'mistral.engine.policies:ConcurrencyPolicy.before_task_start',
               'mistral.workflow.data_flow:get_task_execution_result'],
    bounds={'quick': 'item count symbolic in 0..3; concurrency absent, '
                     'literal 1 / 2, or an expression evaluating to 1, 2, '
                     'n+1; every item outcome symbolic; completion order: '
                     'FIFO with <= 1 out-of-order delivery; rerun with '
                     'reset on / off and new outcomes (count <= 2 without '
                     'concurrency and with concurrency 1, <= 4 with '
                     'concurrency 2); with-items + retry (count 1) with '
                     '<= 3 items, per-iteration outcomes symbolic; a task '
                     '(3 items, concurrency 2) ended by a cancelled item or '
                     'by its timeout with items in flight, their results '
                     'arriving before or after the rerun, reset on / off',
            'thorough': 'item count 0..4, <= 2 out-of-order deliveries, '
                        'rerun with count <= 3'},
    stubs=['minidb', 'QueueRPC', 'FakeScheduler', 'FakeExecutor',
           'post-commit queue inline', 'real YAQL'],
    outside='sub-workflow items; retry counts above 1; two '
            'completions overlapping inside the named lock',
    timeout=(500, 2400))
def c07_e(ctx):
    """after every delivery: never more RUNNING items than the concurrency,
    no index running or accepted twice, no completion with items running; at
    the end: one accepted result per item, results in item order, ERROR iff
    an item failed, an empty list succeeds at once; a rerun re-executes all
    items (reset) or exactly the failed ones"""
    boot()
    nmax = ctx.pick(3, 4)
    k = ctx.pick(1, 2)
    for conc in ('none', 'literal1', 'literal2', 'expr'):
        yield Case(conc, _c07_case(conc, nmax, k),
                   needed=['quiescent', 'empty-list'] +
                   (['throttled'] if conc != 'none' else []))
    for conc in ('none', 'literal1', 'literal2'):
        # (count > concurrency matters: freed slots must be refilled in
        # the second pass as well)
        yield Case(conc + '/rerun', _c07_case(conc, 4 if conc == 'literal2'
                                              else ctx.pick(2, 3), 0,
                                              rerun=True),
                   needed=['first-run-failed', 'rerun-done'],
                   replay=_strong_partial_rerun)
    for kind in ('cancel-item', 'timeout'):
        yield Case('abnormal/' + kind, _c07_abnormal_rerun_case(kind),
                   needed=['ended-with-items-in-flight', 'rerun-done'])
    for conc in ('none', 'literal1', 'literal2'):
        yield Case(conc + '/retry', _c07_retry_case(conc, ctx.pick(3, 4),
                                                    ctx.pick(0, 1)),
                   needed=['quiescent', 'retried'])


def _strong_partial_rerun(model, v):
    from vt import kit
    sig = v.get('signature') or ''
    if ':literal2:rerun' in sig and model.get('n') == 4:
        # F27: second pass over 4 items with concurrency 2
        return kit.run_strong_test('test_c07_rerun_concurrency.py',
                                   timeout=90)
    if not sig.endswith(':item-twice'):
        return True, 'n/a'
    return kit.run_strong_test('test_c07_partial_rerun.py', timeout=60)
