"""C15 - tenants are isolated: private data is invisible, others cannot
modify yours."""
import datetime

from vt import symx, minidb, env
from vt.kit import obligation, Case, boot
from vt.symx import (fresh_bool, fresh_enum, check, reach, note, choice,
                     assume, sym_and, sym_or, sym_not, implies)

T0 = datetime.datetime(2020, 1, 1)
ME, OTHER = 'proj-me', 'proj-other'


def _row_values(model_name):
    base = dict(id='r1', name='res', project_id=None, scope=None)
    extra = {
        'Workbook': dict(definition='', spec={}, namespace=''),
        'WorkflowDefinition': dict(definition='', spec={}, namespace='',
                                   is_system=False),
        'ActionDefinition': dict(definition='', spec={}, namespace='',
                                 is_system=False, action_class='x'),
        'CodeSource': dict(content='', namespace='', version=1),
        'DynamicActionDefinition': dict(class_name='C', namespace='',
                                        code_source_id='cs1',
                                        code_source_name='cs'),
        'ActionExecution': dict(state='SUCCESS', spec={}),
        'WorkflowExecution': dict(state='SUCCESS', spec={}, params={},
                                  context={}, input={}, output={}),
        'TaskExecution': dict(state='SUCCESS', spec={},
                              workflow_execution_id='w-of-' + 'r1'),
        'Environment': dict(variables={}),
        'CronTrigger': dict(pattern='* * * * *', next_execution_time=T0,
                            workflow_name='wf', workflow_id='r-wf',
                            workflow_input={}, workflow_params={}),
        'EventTrigger': dict(workflow_id='r-wf', exchange='e', topic='t',
                             event='ev', workflow_input={},
                             workflow_params={}),
    }[model_name]
    base.update(extra)
    return base


def READS(sa_api):
    return {
        'Workbook': [('get_workbook', lambda: sa_api.get_workbook('res')),
                     ('load_workbook', lambda: sa_api.load_workbook('res')),
                     ('get_workbooks', lambda: sa_api.get_workbooks())],
        'WorkflowDefinition': [
            ('get_workflow_definition(name)',
             lambda: sa_api.get_workflow_definition('res')),
            ('get_workflow_definition(id)',
             lambda: sa_api.get_workflow_definition('r1')),
            ('get_workflow_definition_by_id',
             lambda: sa_api.get_workflow_definition_by_id('r1')),
            ('load_workflow_definition',
             lambda: sa_api.load_workflow_definition('res')),
            ('get_workflow_definitions',
             lambda: sa_api.get_workflow_definitions())],
        'ActionDefinition': [
            ('get_action_definition',
             lambda: sa_api.get_action_definition('res')),
            ('get_action_definition_by_id',
             lambda: sa_api.get_action_definition_by_id('r1')),
            ('load_action_definition',
             lambda: sa_api.load_action_definition('res')),
            ('get_action_definitions',
             lambda: sa_api.get_action_definitions())],
        'CodeSource': [
            ('get_code_source', lambda: sa_api.get_code_source('res')),
            ('load_code_source', lambda: sa_api.load_code_source('res')),
            ('get_code_sources', lambda: sa_api.get_code_sources())],
        'DynamicActionDefinition': [
            ('get_dynamic_action_definition',
             lambda: sa_api.get_dynamic_action_definition('res')),
            ('load_dynamic_action_definition',
             lambda: sa_api.load_dynamic_action_definition('res')),
            ('get_dynamic_action_definitions',
             lambda: sa_api.get_dynamic_action_definitions())],
        'ActionExecution': [
            ('get_action_execution',
             lambda: sa_api.get_action_execution('r1')),
            ('load_action_execution',
             lambda: sa_api.load_action_execution('r1')),
            ('get_action_executions',
             lambda: sa_api.get_action_executions())],
        'WorkflowExecution': [
            ('get_workflow_execution',
             lambda: sa_api.get_workflow_execution('r1')),
            ('load_workflow_execution',
             lambda: sa_api.load_workflow_execution('r1')),
            ('get_workflow_executions',
             lambda: sa_api.get_workflow_executions())],
        'TaskExecution': [
            ('get_task_execution', lambda: sa_api.get_task_execution('r1')),
            ('load_task_execution',
             lambda: sa_api.load_task_execution('r1')),
            ('get_task_executions', lambda: sa_api.get_task_executions())],
        'Environment': [
            ('get_environment', lambda: sa_api.get_environment('res')),
            ('load_environment', lambda: sa_api.load_environment('res')),
            ('get_environments', lambda: sa_api.get_environments())],
        'CronTrigger': [
            ('get_cron_trigger', lambda: sa_api.get_cron_trigger('res')),
            ('get_cron_trigger_by_id',
             lambda: sa_api.get_cron_trigger_by_id('r1')),
            ('load_cron_trigger', lambda: sa_api.load_cron_trigger('res')),
            ('get_cron_triggers', lambda: sa_api.get_cron_triggers())],
        'EventTrigger': [
            ('get_event_trigger', lambda: sa_api.get_event_trigger('r1')),
            ('load_event_trigger', lambda: sa_api.load_event_trigger('r1')),
            ('get_event_triggers', lambda: sa_api.get_event_triggers())],
    }


def WRITES(sa_api):
    return {
        'Workbook': [
            ('update_workbook',
             lambda: sa_api.update_workbook('res', {'definition': 'X'})),
            ('delete_workbook', lambda: sa_api.delete_workbook('res')),
        ],
        'WorkflowDefinition': [
            ('update_workflow_definition',
             lambda: sa_api.update_workflow_definition(
                 'r1', {'definition': 'X', 'scope': 'private'})),
            ('delete_workflow_definition',
             lambda: sa_api.delete_workflow_definition('r1')),
        ],
        'ActionDefinition': [
            ('update_action_definition',
             lambda: sa_api.update_action_definition(
                 'res', {'definition': 'X'})),
            ('delete_action_definition',
             lambda: sa_api.delete_action_definition('res')),
        ],
        'CodeSource': [
            ('update_code_source',
             lambda: sa_api.update_code_source('res', {'content': 'X'})),
            ('delete_code_source', lambda: sa_api.delete_code_source('res')),
        ],
        'DynamicActionDefinition': [
            ('update_dynamic_action_definition',
             lambda: sa_api.update_dynamic_action_definition(
                 'res', {'class_name': 'X'})),
            ('delete_dynamic_action_definition',
             lambda: sa_api.delete_dynamic_action_definition('res')),
        ],
        'ActionExecution': [
            ('update_action_execution',
             lambda: sa_api.update_action_execution('r1', {'state': 'X'})),
            ('delete_action_execution',
             lambda: sa_api.delete_action_execution('r1')),
        ],
        'WorkflowExecution': [
            ('update_workflow_execution',
             lambda: sa_api.update_workflow_execution('r1', {'state': 'X'})),
            ('delete_workflow_execution',
             lambda: sa_api.delete_workflow_execution('r1')),
        ],
        'TaskExecution': [
            ('update_task_execution',
             lambda: sa_api.update_task_execution('r1', {'state': 'X'})),
            ('delete_task_execution',
             lambda: sa_api.delete_task_execution('r1')),
        ],
        'Environment': [
            ('update_environment',
             lambda: sa_api.update_environment('res', {'variables': {'x': 1}})),
            ('delete_environment', lambda: sa_api.delete_environment('res')),
        ],
        'CronTrigger': [
            ('update_cron_trigger',
             lambda: sa_api.update_cron_trigger('res', {'pattern': 'X'})),
            ('delete_cron_trigger', lambda: sa_api.delete_cron_trigger('res')),
        ],
        'EventTrigger': [
            ('update_event_trigger',
             lambda: sa_api.update_event_trigger('r1', {'event': 'X'})),
            # as EventTriggersController.delete does: secured get first
            ('delete_event_trigger',
             lambda: (sa_api.get_event_trigger('r1'),
                      sa_api.delete_event_trigger('r1'))),
        ],
    }


SHAREABLE = {'WorkflowDefinition': 'workflow', 'Workbook': 'workbook'}


def _setup(db, models, model_name, owner, scope, member_status):
    model = getattr(models, model_name)
    vals = _row_values(model_name)
    vals['project_id'] = owner
    vals['scope'] = scope
    db.put(model, **vals)
    if model_name in SHAREABLE and member_status != 'none':
        db.put(models.ResourceMember, id='m1', resource_id='r1',
               resource_type=SHAREABLE[model_name], project_id=OTHER,
               member_id=ME, status=member_status)
    return model


def _returned(res):
    if res is None:
        return False
    if isinstance(res, (list, tuple)):
        return len(res) > 0
    return True


def _c15_read_case(model_name):
    def case():
        from mistral.db.v2.sqlalchemy import api as sa_api, models
        from mistral import exceptions as exc
        db = minidb.MiniDB()
        owner = fresh_enum('owner', (ME, OTHER))
        scope = fresh_enum('scope', ('private', 'public'))
        admin = bool(fresh_bool('is_admin'))
        member = choice('membership', ['none', 'pending', 'accepted',
                                       'rejected']) \
            if model_name in SHAREABLE else 'none'
        reads = READS(sa_api)[model_name]
        fname, fn = choice('function', reads)
        with minidb.installed(db), env.auth_ctx(ME, admin):
            _setup(db, models, model_name, owner, scope, member)
            try:
                got = _returned(fn())
            except exc.DBEntityNotFoundError:
                got = False
        entitled = sym_or(owner == ME, scope == 'public',
                          member == 'accepted')
        allowed = sym_or(entitled, admin)
        sig = 'C15.1:%s:%s' % (model_name, fname)
        if got:
            reach('visible')
            check(allowed, 'foreign-private-resource-visible',
                  {'signature': sig + ':leak', 'membership': member})
        else:
            reach('hidden')
            # (an admin may or may not see foreign private rows through a
            # by-name lookup; the property does not require it)
            check(sym_not(entitled), 'own-or-public-resource-hidden',
                  {'signature': sig + ':hidden', 'membership': member})
    return case


def _c15_write_case(model_name):
    def case():
        from mistral.db.v2.sqlalchemy import api as sa_api, models
        from mistral import exceptions as exc
        db = minidb.MiniDB()
        owner = fresh_enum('owner', (ME, OTHER))
        # executions are never public (nothing sets their scope)
        scope = 'private' if model_name.endswith('Execution') else \
            fresh_enum('scope', ('private', 'public'))
        admin = bool(fresh_bool('is_admin'))
        # memberships can only be created for workflows through REST
        member = choice('membership', ['none', 'accepted']) \
            if model_name == 'WorkflowDefinition' else 'none'
        fname, fn = choice('function', WRITES(sa_api)[model_name])
        with minidb.installed(db), env.auth_ctx(ME, admin):
            model = _setup(db, models, model_name, owner, scope, member)
            before = dict(db.get(model, 'r1'))
            try:
                with sa_api.transaction():
                    fn()
                refused = False
            except (exc.DBEntityNotFoundError, exc.NotAllowedException,
                    exc.InvalidActionException):
                refused = True
        after = db.get(model, 'r1')
        changed = after is None or any(
            after.get(k) is not before.get(k) and after.get(k) != before.get(k)
            for k in before if k != 'updated_at')
        may = sym_or(owner == ME, admin)
        sig = 'C15.2:%s:%s' % (model_name, fname)
        if changed:
            reach('changed')
            check(may, 'foreign-resource-modified',
                  {'signature': sig + ':foreign-write:%s%s' % (
                      symx.concrete(scope),
                      ':shared' if member == 'accepted' else ''),
                   'membership': member})
        else:
            reach('unchanged')
            check(sym_not(owner == ME), 'owner-write-had-no-effect',
                  {'signature': sig + ':no-effect'})
    return case


MODELS = ['Workbook', 'WorkflowDefinition', 'ActionDefinition', 'CodeSource',
          'DynamicActionDefinition', 'ActionExecution', 'WorkflowExecution',
          'TaskExecution', 'Environment', 'CronTrigger', 'EventTrigger']


@obligation(
    'C15.1', engine='sqlir+symx',
    functions=['mistral.db.v2.sqlalchemy.api:_secure_query',
               'mistral.db.v2.sqlalchemy.api:_get_accepted_resources',
               'mistral.db.v2.sqlalchemy.api:_get_collection',
               'mistral.db.v2.sqlalchemy.api:_get_db_object_by_id',
               'mistral.db.v2.sqlalchemy.api:_get_db_object_by_name',
               'mistral.db.v2.sqlalchemy.api:'
               '_get_db_object_by_name_and_namespace_or_id',
               'mistral.db.v2.sqlalchemy.api:'
               '_get_db_object_by_name_and_namespace'],
    bounds='11 secured resource types x every get / load / list function '
           '(43 functions); one row with symbolic owner in {caller, other} '
           'and scope in {private, public}; caller admin flag symbolic; for '
           'workflow definitions and workbooks a membership row in {none, '
           'pending, accepted, rejected}',
    stubs=['minidb (the real WHERE clause of every function is interpreted '
           'over the symbolic row)'],
    outside='REST layer (C16); expression functions call these same '
            'functions')
def c15_1(ctx):
    """a row is returned iff it is the caller's own, public, shared through
    an *accepted* membership, or the caller is admin - for every read
    function of every secured resource type"""
    boot()
    for m in MODELS:
        yield Case(m, _c15_read_case(m), needed=['visible', 'hidden'])


@obligation(
    'C15.2', engine='sqlir+symx',
    functions=['mistral.db.utils:check_db_obj_access',
               'mistral.db.v2.sqlalchemy.api:_delete_all',
               'mistral.db.v2.sqlalchemy.api:update_workbook',
               'mistral.db.v2.sqlalchemy.api:delete_workbook',
               'mistral.db.v2.sqlalchemy.api:update_workflow_definition',
               'mistral.db.v2.sqlalchemy.api:delete_workflow_definition',
               'mistral.db.v2.sqlalchemy.api:update_action_definition',
               'mistral.db.v2.sqlalchemy.api:delete_action_definition',
               'mistral.db.v2.sqlalchemy.api:update_code_source',
               'mistral.db.v2.sqlalchemy.api:delete_code_source',
               'mistral.db.v2.sqlalchemy.api:update_dynamic_action_definition',
               'mistral.db.v2.sqlalchemy.api:delete_dynamic_action_definition',
               'mistral.db.v2.sqlalchemy.api:update_environment',
               'mistral.db.v2.sqlalchemy.api:delete_environment',
               'mistral.db.v2.sqlalchemy.api:update_cron_trigger',
               'mistral.db.v2.sqlalchemy.api:delete_cron_trigger',
               'mistral.db.v2.sqlalchemy.api:update_event_trigger',
               'mistral.db.v2.sqlalchemy.api:delete_event_trigger',
               'mistral.db.v2.sqlalchemy.api:update_workflow_execution',
               'mistral.db.v2.sqlalchemy.api:delete_workflow_execution',
               'mistral.db.v2.sqlalchemy.api:update_task_execution',
               'mistral.db.v2.sqlalchemy.api:delete_task_execution',
               'mistral.db.v2.sqlalchemy.api:update_action_execution',
               'mistral.db.v2.sqlalchemy.api:delete_action_execution'],
    bounds='11 resource types x update / delete (22 functions; the bulk '
           'delete_*s(**filters) helpers are maintenance-only and not '
           'claimed); owner, scope (executions: private only), admin flag '
           'symbolic; accepted membership for workflow definitions',
    stubs=['minidb'])
def c15_2(ctx):
    """an update or delete takes effect iff the caller owns the row or is
    admin: public and shared rows are readable but not writable by others"""
    boot()
    for m in MODELS:
        yield Case(m, _c15_write_case(m), needed=['changed', 'unchanged'],
                   replay=_strong_public_write if m == 'Environment'
                   else None)


def _strong_public_write(model, v):
    from vt import kit
    if ':foreign-write:public' not in (v.get('signature') or ''):
        return True, 'n/a'
    return kit.run_strong_test('test_c15_public_write.py', timeout=60)


@obligation(
    'C15.3', engine='symx+minidb',
    functions=['mistral.db.sqlalchemy.model_base:_set_project_id',
               'mistral.db.v2.sqlalchemy.api:create_environment',
               'mistral.db.v2.sqlalchemy.api:create_workflow_definition',
               'mistral.db.v2.sqlalchemy.api:create_workbook',
               'mistral.db.v2.sqlalchemy.api:create_cron_trigger',
               'mistral.db.v2.sqlalchemy.api:create_code_source'],
    bounds='5 create functions; the supplied project_id symbolic in '
           '{absent, caller, other}',
    stubs=['minidb'])
def c15_3(ctx):
    """a new resource always belongs to the caller's project, whatever
    project_id the values carry"""
    boot()
    from mistral.db.v2.sqlalchemy import api as sa_api, models

    def case():
        db = minidb.MiniDB()
        supplied = choice('supplied', ['absent', ME, OTHER])
        creators = [
            ('environment', models.Environment,
             lambda v: sa_api.create_environment(dict(
                 v, name='e', variables={}))),
            ('workflow_definition', models.WorkflowDefinition,
             lambda v: sa_api.create_workflow_definition(dict(
                 v, name='w', definition='', spec={}, namespace=''))),
            ('workbook', models.Workbook,
             lambda v: sa_api.create_workbook(dict(
                 v, name='b', definition='', spec={}, namespace=''))),
            ('cron_trigger', models.CronTrigger,
             lambda v: sa_api.create_cron_trigger(dict(
                 v, name='c', pattern='* * * * *', next_execution_time=T0,
                 workflow_name='w', workflow_id='x', workflow_input={},
                 workflow_params={}))),
            ('code_source', models.CodeSource,
             lambda v: sa_api.create_code_source(dict(
                 v, name='s', content='', namespace='', version=1))),
        ]
        name, model, fn = choice('creator', creators)
        with minidb.installed(db), env.auth_ctx(ME, False):
            vals = {} if supplied == 'absent' else {'project_id': supplied}
            fn(vals)
        rows = db.rows(model)
        reach('created')
        check(len(rows) == 1 and rows[0]['project_id'] == ME,
              'new-resource-belongs-to-another-project',
              {'signature': 'C15.3:%s' % name,
               'got': rows and rows[0]['project_id']})
    yield Case('create', case, needed=['created'])


# ---------------------------------------------------------------------------
# C15.4  list endpoints: the unscoped (insecure) query is only ever used for
# an admin or behind the admin-only rule
# ---------------------------------------------------------------------------
@obligation(
    'C15.4', engine='symx',
    functions=['mistral.utils.rest_utils:get_all',
               'mistral.api.controllers.v2.workflow:WorkflowsController.'
               'get_all',
               'mistral.api.controllers.v2.execution:ExecutionsController.'
               'get_all',
               'mistral.api.controllers.v2.cron_trigger:'
               'CronTriggersController.get_all',
               'mistral.api.controllers.v2.task:TasksController.get_all',
               'mistral.api.controllers.v2.action_execution:'
               'ActionExecutionsController.get_all'],
    bounds='every exposed get_all below RootController (enumerated from the '
           'live controller tree); all_projects, presence of a project_id '
           'filter naming a foreign project, the caller\'s admin flag and '
           'the verdict of each policy rule asked are symbolic',
    stubs=['acl.enforce -> recording stub with symbolic verdict',
           'db-api facade implementation -> recorder (keyword arguments of '
           'the first query are kept)', 'pecan.request stub'],
    outside='Keystone; what the secured query itself admits (C15.1)')
def c15_4(ctx):
    """a list request reaches the database with insecure=True (no project
    scoping) only if the caller is an admin or an admin-only
    <resource>:list:all_projects rule was asked and granted"""
    boot()
    import inspect
    from vt.harness import C16
    eps = [(p, c, f) for p, c, f in C16.enumerate_endpoints()
           if p.endswith('.get_all')]
    rules = C16.registered_rules()
    admin_only = {n for n, r in rules.items()
                  if str(r.check) in ('rule:admin_only', 'is_admin:True')}

    def case():
        path, ctrl, inner = choice('endpoint', eps)
        sig_ = inspect.signature(inner)
        # (wsme turns the textual defaults into lists before the call)
        over = {k: v for k, v in (('sort_keys', ['created_at']),
                                  ('sort_dirs', ['asc']), ('fields', []))
                if k in sig_.parameters}
        if 'all_projects' in sig_.parameters:
            over['all_projects'] = bool(fresh_bool('all_projects'))
        if 'project_id' in sig_.parameters:
            if fresh_bool('foreign_project_filter'):
                over['project_id'] = 'proj-b'
                reach('project-filter')
        is_admin = bool(fresh_bool('is_admin'))
        allow1 = bool(fresh_bool('rule1_allowed'))
        allow2 = bool(fresh_bool('rule2_allowed'))
        log, outcome = C16._run_endpoint(path, ctrl, inner,
                                         [allow1, allow2], over,
                                         is_admin=is_admin)
        reach('ran')
        s = 'C15.4:%s' % path
        granted = [e[1] for e in log if e[0] == 'enforce' and e[2]]
        for e in log:
            if e[0] != 'db':
                continue
            kw = e[2] if len(e) > 2 else {}
            reach('query')
            if kw.get('insecure'):
                reach('insecure-query')
                check(is_admin or any(
                    n.endswith(':list:all_projects') or n in admin_only
                    for n in granted),
                    'unscoped-listing-for-a-non-admin',
                    {'signature': s + ':insecure', 'asked': granted,
                     'request': over, 'query': {k: repr(v)[:40]
                                                for k, v in kw.items()}})
    yield Case('list-endpoints', case,
               needed=['ran', 'query', 'insecure-query', 'project-filter'])
