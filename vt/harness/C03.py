"""C03 - execution lifecycle is respected and finished results are final."""
from vt import symx, minidb, env, shapes, scenario
from vt.kit import obligation, Case, boot
from vt.symx import (fresh_bool, fresh_enum, check, reach, note, choice,
                     assume, sym_or, sym_and, sym_not, implies)
from vt.harness import C01

ALL = ('IDLE', 'WAITING', 'RUNNING', 'DELAYED', 'PAUSED', 'SUCCESS',
       'CANCELLED', 'ERROR', 'SKIPPED')

# what the property allows (workflow relation + the task-only moves)
ALLOWED = {
    ('IDLE', 'RUNNING'), ('IDLE', 'ERROR'), ('IDLE', 'CANCELLED'),
    ('WAITING', 'RUNNING'),
    ('RUNNING', 'PAUSED'), ('RUNNING', 'DELAYED'), ('RUNNING', 'SUCCESS'),
    ('RUNNING', 'ERROR'), ('RUNNING', 'CANCELLED'),
    ('DELAYED', 'RUNNING'), ('DELAYED', 'ERROR'), ('DELAYED', 'CANCELLED'),
    ('PAUSED', 'RUNNING'), ('PAUSED', 'ERROR'), ('PAUSED', 'CANCELLED'),
    ('ERROR', 'RUNNING'), ('ERROR', 'SKIPPED'),
    ('CANCELLED', 'RUNNING'),
}


@obligation(
    'C03.1', engine='symx',
    functions=['mistral.workflow.states:is_valid_transition',
               'mistral.workflow.states:is_completed',
               'mistral.workflow.states:_VALID_TRANSITIONS'],
    bounds='from / to symbolic over the 9 states plus an unknown state',
    stubs=[])
def c03_1(ctx):
    """every transition the table admits is one the property allows; nothing
    leaves SUCCESS; unknown states are rejected; is_completed is exactly
    {SUCCESS, ERROR, CANCELLED, SKIPPED}"""
    boot()
    from mistral.workflow import states

    def case():
        f = fresh_enum('from', ALL + ('BOGUS',))
        t = fresh_enum('to', ALL + ('BOGUS',))
        ok = states.is_valid_transition(f, t)
        fc, tc = symx.concrete(f), symx.concrete(t)
        if ok:
            reach('valid')
            check(fc == tc or (fc, tc) in ALLOWED,
                  'table-admits-forbidden-transition',
                  {'signature': 'C03.1:%s->%s' % (fc, tc)})
            check(fc != 'SUCCESS' or tc == 'SUCCESS', 'success-left',
                  {'signature': 'C03.1:success-left'})
            check('BOGUS' not in (fc, tc), 'unknown-state-accepted',
                  {'signature': 'C03.1:bogus'})
        else:
            reach('invalid')
            check(fc != tc or fc == 'BOGUS', 'reflexive-move-rejected',
                  {'signature': 'C03.1:reflexive'})
        s = fresh_enum('s', ALL)
        done = bool(states.is_completed(s))
        check(done == (symx.concrete(s) in ('SUCCESS', 'ERROR', 'CANCELLED',
                                        'SKIPPED')),
              'is_completed-wrong', {'signature': 'C03.1:is_completed'})
    yield Case('table', case, needed=['valid', 'invalid'])


@obligation(
    'C03.q', engine='sqlir+symx',
    functions=['mistral.db.v2.sqlalchemy.api:update_workflow_execution_state',
               'mistral.db.v2.sqlalchemy.api:update_task_execution_state',
               'mistral.db.v2.sqlalchemy.api:update_on_match'],
    bounds='one row with a symbolic state; the expected and the new state '
           'symbolic over the 9 states; a second row with another id',
    stubs=['minidb (criterion from oslo.db manufacture_entity_criteria)'])
def c03_q(ctx):
    """the state update is a true compare-and-swap: it matches iff the row
    with that id still has the expected state, and touches no other row"""
    boot()
    from mistral.db.v2.sqlalchemy import api as sa_api, models

    def mk(kind):
        def case():
            db = minidb.MiniDB()
            model = models.WorkflowExecution if kind == 'wf' \
                else models.TaskExecution
            cur = fresh_enum('row_state', ALL)
            exp = fresh_enum('expected', ALL)
            new = fresh_enum('new', ALL)
            with minidb.installed(db), env.auth_ctx('proj-a'):
                db.put(model, id='x1', name='n', state=cur, spec={},
                       project_id='proj-a')
                db.put(model, id='x2', name='n', state=exp, spec={},
                       project_id='proj-a')
                with sa_api.transaction():
                    fn = sa_api.update_workflow_execution_state \
                        if kind == 'wf' else \
                        sa_api.update_task_execution_state
                    r = fn(id='x1', cur_state=exp, state=new)
            r1, r2 = db.get(model, 'x1'), db.get(model, 'x2')
            if r is not None:
                reach('hit')
                check(cur == exp, 'cas-hit-on-changed-state',
                      {'signature': 'C03.q:%s:stale-hit' % kind})
                check(r1['state'] == new, 'cas-did-not-write',
                      {'signature': 'C03.q:%s:no-write' % kind})
            else:
                reach('miss')
                check(sym_not(cur == exp), 'cas-miss-on-expected-state',
                      {'signature': 'C03.q:%s:fresh-miss' % kind})
                check(r1['state'] == cur, 'cas-miss-wrote',
                      {'signature': 'C03.q:%s:miss-wrote' % kind})
            check(r2['state'] == exp, 'cas-touched-other-row',
                  {'signature': 'C03.q:%s:other-row' % kind})
        return case
    yield Case('workflow', mk('wf'), needed=['hit', 'miss'])
    yield Case('task', mk('task'), needed=['hit', 'miss'])


OPS = ('pause', 'resume', 'stop-SUCCESS', 'stop-ERROR', 'stop-CANCELLED')


def _c03_e_case(shape, text, preemptions, max_step, wf_name='wf'):
    def case():
        sig = 'C03.E:%s' % shape
        w, start = scenario.make(text, sig, preemptions,
                                 C01.FIXED_GUARDS.get(shape), wf_name=wf_name)
        with w:
            ex, wid = start()

            def mk(op):
                def run(ex_, w_):
                    reach('op-' + op)
                    if op == 'pause':
                        ex_.operator('pause_workflow', wid)
                    elif op == 'resume':
                        ex_.operator('resume_workflow', wid)
                    else:
                        ex_.operator('stop_workflow', wid,
                                     op.split('-')[1], 'M')
                return run
            op1 = choice('op1', list(OPS))
            at1 = choice('at1', list(range(0, max_step + 1)))
            op2 = choice('op2', list(OPS))
            at2 = choice('at2', list(range(0, max_step + 1)))
            assume(at2 >= at1)
            scenario.run_with_ops(ex, w, [[at1, mk(op1)], [at2, mk(op2)]])
            reach('quiescent')
            from mistral import exceptions as exc
            bad = [(m, repr(e)[:200]) for m, e in w.errors
                   if not isinstance(e, (exc.MistralException, ValueError))]
            check(not bad, 'engine-entry-point-raised-undeclared-error',
                  {'signature': sig + ':undeclared-error', 'errors': bad,
                   'trace': ex.trace[-25:]})
    return case


@obligation(
    'C03.E', engine='symx+world(minidb)',
    functions=['mistral.engine.workflows:Workflow.set_state',
               'mistral.engine.workflows:Workflow.pause',
               'mistral.engine.workflows:Workflow.resume',
               'mistral.engine.workflows:Workflow.stop',
               'mistral.engine.workflows:Workflow.check_and_complete',
               'mistral.engine.tasks:Task.set_state',
               'mistral.engine.tasks:Task.complete',
               'mistral.engine.actions:RegularAction.complete',
               'mistral.engine.workflow_handler:stop_workflow',
               'mistral.engine.workflow_handler:pause_workflow',
               'mistral.engine.workflow_handler:resume_workflow'],
    bounds={'quick': 'shapes chain, fork_join; two operator commands '
                     '(symbolic: pause, resume, stop with SUCCESS / ERROR / '
                     'CANCELLED) at symbolic positions among the first 8 '
                     'deliveries; outcomes symbolic; FIFO',
            'thorough': 'plus parent+child shape, first 12 deliveries, <= 1 '
                        'out-of-order delivery'},
    stubs=['minidb', 'QueueRPC', 'FakeScheduler', 'FakeExecutor',
           'post-commit queue inline'],
    outside='rerun / skip interleaved with other commands (C12)',
    timeout=(500, 2400))
def c03_e(ctx):
    """after every delivery and every operator command: each workflow state
    change is a chain of legal compare-and-swap moves (ERROR / CANCELLED are
    left only by rerun, SUCCESS never), a SUCCESS task never changes, an
    accepted action result never changes, a finished workflow's output is
    final; operator commands only fail with declared errors"""
    boot()
    ms = ctx.pick(8, 12)
    k = ctx.pick(0, 1)
    yield Case('chain', _c03_e_case('chain', shapes.CHAIN, k, ms),
               needed=['quiescent', 'op-pause', 'op-stop-ERROR'],
               shard_depth=6, procs=14, max_paths=500000)
    yield Case('fork_join', _c03_e_case('fork_join', shapes.FORK_JOIN, k,
                                        ms),
               needed=['quiescent', 'op-resume', 'op-stop-CANCELLED'],
               shard_depth=6, procs=14, max_paths=500000)
    if not ctx.quick:
        yield Case('subwf', _c03_e_case('subwf', shapes.SUBWF, k, ms,
                                        wf_name='parent'),
                   needed=['quiescent'], shard_depth=6, procs=14,
                   max_paths=500000)
