"""C06 - duplicate or redelivered messages have the effect of a single
delivery."""
from vt import symx, shapes, scenario
from vt.kit import obligation, Case, boot
from vt.symx import (fresh_bool, check, reach, note, choice, assume)
from vt.harness import C01


def _c06_e_case(shape, text, preemptions, max_step, twice=False):
    spec = C01.parse(text)

    def case():
        from vt.world import Event
        sig = 'C06.E:%s' % shape
        w, start = scenario.make(text, sig, preemptions,
                                 C01.FIXED_GUARDS.get(shape))
        with w:
            ex, wid = start()
            dup_at = choice('dup_at', list(range(1, max_step + 1)))
            where = choice('dup_where', ['next', 'last'])
            copies = 2 if twice else 1
            real_deliver = ex.deliver
            st = {'n': 0, 'done': False}

            def deliver(ev, *a, **k):
                st['n'] += 1
                fire = st['n'] == dup_at and not st['done'] and \
                    ev.kind in ('rpc', 'job')
                real_deliver(ev, *a, **k)
                if fire:
                    st['done'] = True
                    reach('duplicated')
                    reach('dup-' + ev.label.split(' ')[0])
                    for _ in range(copies):
                        e2 = Event(ev.kind, ev.label + ' (dup)', ev.payload)
                        w.post(e2)
                        if where == 'next':
                            w.events.remove(e2)
                            w.events.insert(0, e2)
            ex.deliver = deliver
            scenario.run_with_ops(ex, w, [])
            reach('quiescent')
            inf = scenario.final_check(ex, w, wid, spec, sig)
            for t in w.tasks(wid):
                n = len(w.actions(t['id']))
                if not ex.taint:
                    check(n <= 1, 'action-dispatched-twice',
                          dict(inf('action-twice'), task=t['name'], n=n))
                acc = [a for a in w.actions(t['id']) if a['accepted']]
                check(len(acc) <= 1, 'two-results-accepted',
                      dict(inf('two-accepted'), task=t['name']))
    return case


def _c06_3_case():
    def case():
        from vt.world import World
        w = World([shapes.FORK_JOIN])
        with w:
            n = choice('repeat_after', [0, 1, 3])
            r1 = w.call('start_workflow', 'wf', '', 'fixed-ex-id', {}, '')
            for _ in range(n):
                if w.events:
                    w.deliver(w.events[0])
            tasks_before = len(w.rows('TaskExecution'))
            evs_before = len(w.events)
            r2 = w.call('start_workflow', 'wf', '', 'fixed-ex-id', {}, '')
            reach('started-twice')
            sig = 'C06.3:'
            check(not w.errors, 'second-start-raised',
                  {'signature': sig + 'error',
                   'errors': [repr(e)[:200] for e in w.errors]})
            check(r2 is not None and r2.id == 'fixed-ex-id',
                  'second-start-did-not-return-existing',
                  {'signature': sig + 'return'})
            check(len(w.rows('WorkflowExecution')) == 1,
                  'second-execution-created', {'signature': sig + 'rows'})
            check(len(w.rows('TaskExecution')) == tasks_before and
                  len(w.events) == evs_before,
                  'second-start-dispatched-again',
                  {'signature': sig + 'dispatch'})
            w.run()
            check(w.wf_ex('fixed-ex-id')['state'] == 'SUCCESS' and
                  sorted(t['name'] for t in w.rows('TaskExecution'))
                  == ['a', 'b', 'c', 'j'],
                  'run-differs-after-duplicate-start',
                  {'signature': sig + 'final', 'summary': w.summary()})
    return case


@obligation(
    'C06.E', engine='symx+world(minidb)',
    functions=['mistral.engine.default_engine:DefaultEngine.on_action_complete',
               'mistral.engine.default_engine:DefaultEngine.start_task',
               'mistral.engine.action_handler:on_action_complete',
               'mistral.engine.actions:RegularAction.complete',
               'mistral.engine.task_handler:run_task',
               'mistral.engine.task_handler:_refresh_task_state',
               'mistral.engine.tasks:RegularTask._run_new',
               'mistral.engine.tasks:Task.complete'],
    bounds={'quick': 'shapes fork_join, error_routes, join_2_of_3_mixed, '
                     'chain; one engine message or scheduler job (symbolic '
                     'position among the first 14 deliveries) is delivered '
                     'a second time, right away or after everything else; '
                     'outcomes symbolic; FIFO otherwise',
            'thorough': 'the duplicate is delivered twice; <= 1 '
                        'out-of-order delivery'},
    stubs=['minidb', 'QueueRPC', 'FakeScheduler', 'FakeExecutor',
           'post-commit queue inline'],
    outside='duplicates of more than one message',
    timeout=(400, 2400))
def c06_e(ctx):
    """with any one message duplicated the run ends exactly as the reference
    says, no action is dispatched twice, no second result is accepted, no
    task is created twice, and the duplicate only ever fails with a declared
    error"""
    boot()
    k = ctx.pick(0, 1)
    ms = ctx.pick(14, 20)
    for shape, text in (('fork_join', shapes.FORK_JOIN),
                        ('error_routes', shapes.ERROR_ROUTES),
                        ('join_2_of_3_mixed', shapes.JOIN_2_OF_3_MIXED),
                        ('chain', shapes.CHAIN)):
        yield Case(shape, _c06_e_case(shape, text, k, ms,
                                      twice=not ctx.quick),
                   needed=['duplicated', 'quiescent', 'dup-on_action_complete',
                           'dup-start_task'])


@obligation(
    'C06.3', engine='symx+world(minidb)',
    functions=['mistral.engine.default_engine:DefaultEngine.start_workflow',
               'mistral.engine.workflow_handler:start_workflow',
               'mistral.engine.workflows:Workflow._create_execution',
               'mistral.db.v2.sqlalchemy.api:create_workflow_execution'],
    bounds='start request carrying an execution id delivered again after '
           '0 / 1 / 3 further deliveries',
    stubs=['minidb (primary key uniqueness from the real table)'])
def c06_3(ctx):
    """the second start returns the existing execution, creates no row,
    dispatches nothing, and the run ends as a single start would"""
    boot()
    yield Case('start-twice', _c06_3_case(), needed=['started-twice'])


@obligation(
    'C06.4', engine='symx',
    functions=['mistral.executors.default_executor:'
               'DefaultExecutor._do_run_action',
               'mistral.executors.default_executor:'
               'DefaultExecutor.run_action'],
    bounds='redelivered, safe_rerun, action_ex_id present, sync flag: '
           'symbolic booleans; action outcome in {Result ok, Result error, '
           'plain value, raises}; engine client outcome in {ok, raises '
           'MistralException, raises other}',
    stubs=['engine RPC client recorder', 'heartbeat sender no-op',
           'action object stub with symbolic is_sync'])
def c06_4(ctx):
    """a redelivered action that is not safe to re-run is not run and exactly
    one error is reported; for every run action at most one result reaches
    the engine successfully"""
    boot()
    from mistral.executors import default_executor as de
    from mistral import exceptions as exc
    from mistral_lib import actions as ml
    from vt import env

    def case():
        redelivered = bool(fresh_bool('redelivered'))
        safe = bool(fresh_bool('safe_rerun'))
        has_id = bool(fresh_bool('has_action_ex_id'))
        sync = bool(fresh_bool('is_sync'))
        outcome = choice('outcome', ['ok', 'error', 'plain', 'raises'])
        client = choice('client', ['ok', 'mistral-exc', 'other-exc'])
        calls = []
        runs = []

        class Client(object):
            def on_action_complete(self, action_ex_id, result, **kw):
                calls.append((action_ex_id, result))
                if len(calls) == 1 and client == 'mistral-exc':
                    raise exc.MistralException('cannot serialize')
                if len(calls) == 1 and client == 'other-exc':
                    raise RuntimeError('bus down')

        class Act(object):
            def is_sync(self):
                return sync

            def run(self, ctx_):
                runs.append(1)
                if outcome == 'ok':
                    return ml.Result(data=1)
                if outcome == 'error':
                    return ml.Result(error='e')
                if outcome == 'plain':
                    return 42
                raise ValueError('boom')
        with env.auth_ctx('proj-a'), \
                env.patched(de.rpc, 'get_engine_client', lambda: Client()), \
                env.patched(de.action_heartbeat_sender, 'add_action',
                            lambda i: None), \
                env.patched(de.action_heartbeat_sender, 'remove_action',
                            lambda i: None):
            ex = de.DefaultExecutor()
            r = None
            try:
                r = ex.run_action(Act(), 'aid' if has_id else None, safe, {},
                                  redelivered=redelivered)
            except (exc.MistralException, RuntimeError):
                # the report itself could not be delivered (bus / engine
                # error): it surfaces to the RPC server, which is allowed
                assume(client != 'ok')
                reach('report-failed')
        sig = 'C06.4:'
        reach('ran')
        if redelivered and not safe:
            reach('refused-redelivery')
            check(not runs, 'unsafe-redelivered-action-was-run',
                  {'signature': sig + 'ran-unsafe'})
            if has_id:
                check(len(calls) == 1 and calls[0][1].is_error(),
                      'redelivery-not-reported-as-one-error',
                      {'signature': sig + 'redelivery-report'})
            else:
                check(r is not None and r.is_error() and not calls,
                      'redelivery-not-returned-as-error',
                      {'signature': sig + 'redelivery-return'})
            return
        check(len(runs) == 1, 'action-run-count-wrong',
              {'signature': sig + 'run-count', 'n': len(runs)})
        ok_calls = len(calls) if client == 'ok' else max(len(calls) - 1, 0)
        check(ok_calls <= 1, 'more-than-one-result-reported',
              {'signature': sig + 'two-results', 'calls': len(calls)})
        if has_id and client == 'ok' and (sync or outcome in ('error',
                                                              'raises')):
            check(len(calls) == 1, 'result-not-reported',
                  {'signature': sig + 'not-reported'})
            want_err = outcome in ('error', 'raises')
            check(calls[0][1].is_error() == want_err,
                  'wrong-result-kind-reported',
                  {'signature': sig + 'kind'})
        if not has_id:
            check(not calls, 'reported-without-execution-id',
                  {'signature': sig + 'no-id'})
    yield Case('do_run_action', case, needed=['ran', 'refused-redelivery'])


# ---------------------------------------------------------------------------
# C06.5  the two copies of a message are processed by two engine processes
# at the same time (overlapping transactions)
# ---------------------------------------------------------------------------
WITH_ITEMS_2 = """
version: '2.0'
wf:
  tasks:
    a:
      with-items: i in [0, 1]
      action: std.echo output=<% $.i %>
      on-success: b
    b:
      action: std.noop
"""


def _c06_5_case(shape, text, which, preemptions):
    def case():
        from vt.world import World
        from vt import actors as A
        from mistral_lib import actions as ml
        from mistral import context
        from mistral import exceptions as exc
        w = World([text], multi_process=True)
        with w:
            wid = w.start('wf')
            # FIFO until the n-th message of the wanted kind is at the head
            nth = choice('nth', [1, 2])
            seen = {'n': 0, 'ev': None}

            def stop(world):
                ev = world.events[0]
                if ev is seen['ev']:
                    return True
                if ev.kind in ('rpc', 'job') and \
                        ev.label.split(' ')[0] == which:
                    seen['n'] += 1
                    if seen['n'] == nth:
                        seen['ev'] = ev
                        return True
                return False
            w.run(result_of=lambda ev: ml.Result(data='ok'), stop_when=stop)
            assume(seen['ev'] is not None and w.events and
                   w.events[0] is seen['ev'])
            ev = w.take(w.events[0])
            reach('duplicate-in-flight')
            acts = A.Actors(max_steps=800, preemptions=preemptions)
            A.attach(w.db, acts)
            ctx0 = context.ctx()

            def proc():
                context.set_ctx(ev.ctx or ctx0)
                w._deliver(ev, None)
            acts.spawn('E1', proc)
            acts.spawn('E2', proc)
            acts.run()
            w.db.on_op = None
            w.db.on_block = None
            note('schedule', acts.schedule_str())
            sig = 'C06.5:%s:%s:' % (shape, which)
            reach('raced')
            if acts.used_preemptions:
                reach('interleaved')
            w.run(result_of=lambda ev_: ml.Result(data='ok'))
            info = {'schedule': acts.schedule_str(), 'message': ev.label,
                    'summary': w.summary()}
            bad = [(m, repr(e)[:200]) for m, e in w.errors
                   if not isinstance(e, (exc.MistralException,
                                         exc.MistralError, ValueError))]
            check(not bad, 'duplicate-failed-with-undeclared-error',
                  dict(info, signature=sig + 'error', errors=bad))
            check(w.wf_ex(wid)['state'] == 'SUCCESS',
                  'run-did-not-end-as-with-one-delivery',
                  dict(info, signature=sig + 'final-state',
                       state=w.wf_ex(wid)['state']))
            names = [t['name'] for t in w.tasks(wid)]
            check(len(names) == len(set(names)), 'task-created-twice',
                  dict(info, signature=sig + 'task-twice', names=names))
            for t in w.tasks(wid):
                idx = [(a['runtime_context'] or {}).get('index', 0)
                       for a in w.actions(t['id'])]
                check(len(idx) == len(set(idx)), 'action-dispatched-twice',
                      dict(info, signature=sig + 'action-twice',
                           task=t['name'], n=len(idx)))
                acc = [(a['runtime_context'] or {}).get('index', 0)
                       for a in w.actions(t['id']) if a['accepted']]
                check(len(acc) == len(set(acc)), 'two-results-accepted',
                      dict(info, signature=sig + 'two-accepted',
                           task=t['name']))
                check(t['state'] == 'SUCCESS', 'task-not-finished',
                      dict(info, signature=sig + 'task-state',
                           task=t['name'], state=t['state']))
            # no item left running behind a finished task
            running = [a for a in w.rows('ActionExecution')
                       if a['state'] == 'RUNNING']
            check(not running, 'action-still-running-after-the-run',
                  dict(info, signature=sig + 'left-running',
                       n=len(running)))
    return case


@obligation(
    'C06.5', engine='symx-actors+world(minidb)',
    functions=['mistral.engine.default_engine:DefaultEngine.start_task',
               'mistral.engine.default_engine:DefaultEngine.on_action_complete',
               'mistral.engine.task_handler:run_task',
               'mistral.engine.task_handler:_on_action_complete',
               'mistral.engine.task_handler:_scheduled_on_action_complete',
               'mistral.engine.tasks:Task.set_state',
               'mistral.engine.tasks:RegularTask._run_new',
               'mistral.engine.tasks:WithItemsTask._schedule_actions',
               'mistral.engine.actions:RegularAction.complete',
               'mistral.db.v2.sqlalchemy.api:update_task_execution_state'],
    bounds={'quick': 'a two-task chain and a with-items task (2 items): the '
                     'first or second start_task / on_action_complete '
                     'message is handed to TWO engine processes whose DB '
                     'statements interleave with <= 2 context switches '
                     '(READ COMMITTED overlay, row locks, identity map per '
                     'session)',
            'thorough': '<= 3 context switches; also the scheduled '
                        'on_action_complete job of with-items'},
    stubs=['minidb', 'QueueRPC', 'FakeScheduler', 'FakeExecutor'],
    outside='three or more concurrent copies; two different messages '
            'duplicated',
    timeout=(400, 2400))
def c06_5(ctx):
    """with the two copies of one message processed concurrently the run
    still ends SUCCESS with every task finished once, no action dispatched
    twice, one accepted result per item, and only declared errors"""
    boot()
    k = ctx.pick(2, 3)
    kinds = ['start_task', 'on_action_complete']
    for shape, text in (('chain2', shapes.CHAIN2 if hasattr(shapes, 'CHAIN2')
                         else _CHAIN2), ('with_items', WITH_ITEMS_2)):
        for which in kinds + (['_scheduled_on_action_complete']
                              if shape == 'with_items' and not ctx.quick
                              else []):
            yield Case('%s/%s' % (shape, which),
                       _c06_5_case(shape, text, which, k),
                       needed=['duplicate-in-flight', 'raced', 'interleaved'],
                       shard_depth=8, procs=8, max_paths=1000000)


_CHAIN2 = """
version: '2.0'
wf:
  tasks:
    a:
      action: std.noop
      on-success: b
    b:
      action: std.noop
"""


# ---------------------------------------------------------------------------
# C06.R  an engine transaction retried after a database deadlock has the
# effect of one execution
# ---------------------------------------------------------------------------
RETRY_SHAPES = {
    'fork_join': None,      # filled from shapes below
    'with_items': WITH_ITEMS_2,
    'policies': """
version: '2.0'
wf:
  tasks:
    a:
      action: std.noop
      wait-before: 1
      wait-after: 1
      on-success: b
    b:
      action: std.noop
      retry:
        count: 1
        delay: 0
""",
}


def _c06_r_case(shape, text, max_delivery, max_stmt):
    """At a solver-chosen delivery the k-th database statement (solver
    choice) fails with DBDeadlock: the transaction is rolled back and the
    handler runs again (mistral.db.utils.retry_on_db_error)."""
    spec = C01.parse(text)

    def case():
        from oslo_db import exception as db_exc
        from vt import env as venv
        from mistral.db import utils as db_utils
        import tenacity.nap
        sig = 'C06.R:%s' % shape
        w, start = scenario.make(text, sig, 0, None)
        d = choice('deadlock_at_delivery', list(range(1, max_delivery + 1)))
        k = choice('deadlock_at_statement', list(range(0, max_stmt)))
        st = {'delivery': 0, 'stmt': 0, 'fired': False, 'armed': False}
        with w:
            # scheduler jobs are rows of the failed transaction: they go
            # away with it; RPC messages / actions sent during a failed
            # attempt were really sent
            real_attempt = db_utils._with_auth_context

            def attempt(auth_ctx, func, *a, **kw):
                before = list(w.events)
                n_cas = len(w.cas_log)
                try:
                    return real_attempt(auth_ctx, func, *a, **kw)
                except (db_exc.DBDeadlock,):
                    w.events[:] = [e for e in w.events
                                   if e in before or e.kind != 'job']
                    del w.cas_log[n_cas:]      # rolled back with the rest
                    raise
            w._stack.enter_context(venv.patched(db_utils,
                                                '_with_auth_context',
                                                attempt))
            w._stack.enter_context(venv.patched(tenacity.nap.time, 'sleep',
                                                lambda s: None))

            def on_op(session, op):
                if not st['armed'] or st['fired'] or \
                        getattr(w, 'in_post_commit', 0):
                    # (post-commit operations run after the transaction;
                    # a failure there is outside this obligation)
                    return
                st['stmt'] += 1
                if st['stmt'] - 1 == k:
                    st['fired'] = True
                    reach('deadlock-injected')
                    reach('deadlock-at-' + op.split(' ')[0])
                    raise db_exc.DBDeadlock()
            w.db.on_op = on_op
            ex, wid = start()
            real_deliver = ex.deliver

            def deliver(ev, *a, **kw):
                st['delivery'] += 1
                st['armed'] = st['delivery'] == d
                st['stmt'] = 0
                n_err = len(w.errors)
                n_cas = len(w.cas_log)
                before = list(w.events)
                try:
                    r = real_deliver(ev, *a, **kw)
                finally:
                    st['armed'] = False
                esc = [e for m, e in w.errors[n_err:]
                       if isinstance(e, db_exc.DBDeadlock)]
                if esc:
                    # the handler is not decorated with retry_on_db_error
                    # (start_task): the error goes back to the message
                    # transport, which delivers the request again
                    # (at-least-once) - exactly a redelivery after a failed
                    # attempt
                    del w.errors[n_err:]
                    del w.cas_log[n_cas:]
                    # (scheduler jobs are rows of the rolled-back
                    # transaction)
                    w.events[:] = [e for e in w.events
                                   if e in before or e.kind != 'job']
                    reach('redelivered-by-transport')
                    from vt.world import Event
                    w.events.insert(0, Event(ev.kind, ev.label + ' (redelivered)',
                                             ev.payload))
                    ex.snap = type(ex.snap)(w)
                    ex.cas_pos = len(w.cas_log)
                return r
            ex.deliver = deliver
            scenario.run_with_ops(ex, w, [])
            w.db.on_op = None
            assume(st['fired'])
            reach('quiescent')
            inf = scenario.final_check(ex, w, wid, spec, sig)
            for t in w.tasks(wid):
                idx = [(a['runtime_context'] or {}).get('index', 0)
                       for a in w.actions(t['id'])]
                retries = 1 if (t['spec'] or {}).get('retry') else 0
                if not ex.taint and ex.outcomes.get(t['name']) != 'ERROR':
                    check(len(idx) == len(set(idx)),
                          'action-dispatched-twice',
                          dict(inf('action-twice'), task=t['name'],
                               n=len(idx)))
                acc = [(a['runtime_context'] or {}).get('index', 0)
                       for a in w.actions(t['id']) if a['accepted']]
                check(len(acc) == len(set(acc)), 'two-results-accepted',
                      dict(inf('two-accepted'), task=t['name']))
    return case


@obligation(
    'C06.R', engine='symx+world(minidb)',
    functions=['mistral.db.utils:retry_on_db_error',
               'mistral.engine.post_tx_queue:run',
               'mistral.engine.default_engine:DefaultEngine.start_task',
               'mistral.engine.default_engine:DefaultEngine.on_action_complete',
               'mistral.engine.task_handler:_refresh_task_state',
               'mistral.engine.task_handler:_scheduled_on_action_complete',
               'mistral.engine.policies:_continue_task',
               'mistral.engine.policies:_complete_task',
               'mistral.engine.workflow_handler:_check_and_complete'],
    bounds={'quick': 'shapes fork_join, with-items (2 items), a chain with '
                     'wait-before / wait-after / retry; at one of the first '
                     '12 deliveries (solver choice) the k-th statement (k < '
                     '14, solver choice) of the engine transaction raises '
                     'DBDeadlock and the decorated handler is retried; '
                     'outcomes symbolic; FIFO',
            'thorough': 'first 20 deliveries, k < 24'},
    stubs=['minidb (statement hook raises oslo.db DBDeadlock)', 'QueueRPC',
           'FakeScheduler (jobs of a rolled-back attempt are discarded, as '
           'rows of that transaction; RPC messages are not)',
           'FakeExecutor', 'tenacity sleep -> no-op'],
    outside='DBConnectionError / OperationalError (same retry path); more '
            'than one deadlock per run; deadlocks inside the post-commit '
            'operations',
    timeout=(400, 2400))
def c06_r(ctx):
    """a handler that is rolled back by a deadlock at any statement and
    retried leaves the run exactly where a single undisturbed execution
    would: same final states as the reference, no action dispatched twice,
    no second accepted result, only declared errors"""
    boot()
    md, ms = ctx.pick(12, 20), ctx.pick(14, 24)
    for shape, text in (('fork_join', shapes.FORK_JOIN),
                        ('with_items', RETRY_SHAPES['with_items']),
                        ('policies', RETRY_SHAPES['policies'])):
        yield Case(shape, _c06_r_case(shape, text, md, ms),
                   needed=['deadlock-injected', 'quiescent'],
                   max_paths=500000)


# ---------------------------------------------------------------------------
# C06.S  duplicated completion of a sub-workflow item of a with-items task
# ---------------------------------------------------------------------------
ITEMS_SUBWF_CONC = """
version: '2.0'
parent:
  tasks:
    p1:
      with-items: i in [0, 1, 2]
      concurrency: 2
      workflow: child
      on-success: p2
    p2:
      action: std.noop
child:
  tasks:
    c1:
      action: std.noop
"""


def _c06_s_case(max_dup):
    """the completion message of a finished sub-workflow item (solver
    choice: which one) is delivered a second time, right away or after
    everything else; also the scheduled completion job of the with-items
    task"""
    def case():
        from vt.world import World, Event
        from mistral_lib import actions as ml
        sig = 'C06.S'
        w = World([ITEMS_SUBWF_CONC])
        with w:
            wid = w.start('parent')
            which = choice('dup_nth', list(range(1, max_dup + 1)))
            kind = choice('dup_kind', ['wf_action_complete',
                                       'scheduled_job'])
            where = choice('dup_where', ['next', 'last'])
            seen = {'n': 0, 'done': False}
            for _ in range(200):
                if not w.events:
                    break
                ev = w.events[0]
                is_target = (
                    kind == 'wf_action_complete' and ev.kind == 'rpc' and
                    ev.payload[0] == 'on_action_complete' and
                    ev.payload[2].get('wf_action')) or (
                    kind == 'scheduled_job' and ev.kind == 'job' and
                    '_scheduled_on_action_complete' in ev.label)
                w.deliver(ev, ml.Result(data='ok')
                          if ev.kind == 'action' else None)
                if is_target and not seen['done']:
                    seen['n'] += 1
                    if seen['n'] == which:
                        seen['done'] = True
                        reach('duplicated')
                        reach('dup-' + kind)
                        e2 = Event(ev.kind, ev.label + ' (dup)', ev.payload)
                        w.post(e2)
                        if where == 'next':
                            w.events.remove(e2)
                            w.events.insert(0, e2)
            assume(seen['done'])
            reach('quiescent')
            rows = w.rows('WorkflowExecution')
            p1 = w.task('p1', wid)
            info = {'states': [(x['workflow_name'], x['state'])
                               for x in rows],
                    'p1': p1 and (p1['state'], (p1['runtime_context'] or {})
                                  .get('with_items')),
                    'errors': [(m, repr(e)[:160]) for m, e in w.errors]}
            check(w.wf_ex(wid)['state'] == 'SUCCESS' and
                  p1['state'] == 'SUCCESS' and
                  w.task('p2', wid) is not None,
                  'run-did-not-end-as-with-one-delivery',
                  dict(info, signature=sig + ':final'))
            kids = [x for x in rows if x['task_execution_id']]
            check(len(kids) == 3 and all(x['state'] == 'SUCCESS'
                                         for x in kids),
                  'item-sub-workflows-differ-from-single-delivery',
                  dict(info, signature=sig + ':kids', n=len(kids)))
            names = [t['name'] for t in w.tasks(wid)]
            check(sorted(names) == ['p1', 'p2'], 'task-created-twice',
                  dict(info, signature=sig + ':task-twice', names=names))
    return case


@obligation(
    'C06.S', engine='symx+world(minidb)',
    functions=['mistral.engine.default_engine:DefaultEngine.on_action_complete',
               'mistral.engine.actions:WorkflowAction.complete',
               'mistral.engine.task_handler:schedule_on_action_complete',
               'mistral.engine.task_handler:_scheduled_on_action_complete',
               'mistral.engine.tasks:WithItemsTask.on_action_complete',
               'mistral.engine.tasks:WithItemsTask._increase_capacity',
               'mistral.engine.tasks:WithItemsTask.is_with_items_completed'],
    bounds='a with-items task over 3 sub-workflows with concurrency 2; the '
           '1st-3rd completion message of a sub-workflow item, or the '
           '1st-3rd scheduled completion job of the task, is delivered '
           'twice (right away or after everything else); FIFO; all actions '
           'succeed',
    stubs=['minidb', 'QueueRPC', 'FakeScheduler', 'FakeExecutor',
           'post-commit queue inline'],
    outside='failing items; more than one duplicate')
def c06_s(ctx):
    """with a sub-workflow item's completion (or the task's scheduled
    completion job) delivered twice the with-items task and the parent still
    finish SUCCESS, every item ran once, the follow-up task ran once"""
    boot()
    yield Case('items-subwf', _c06_s_case(3),
               needed=['duplicated', 'quiescent', 'dup-wf_action_complete',
                       'dup-scheduled_job'])
