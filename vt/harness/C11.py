"""C11 - stop and cancel end the whole execution tree; late results change
nothing."""
from vt import symx, shapes, scenario
from vt.kit import obligation, Case, boot
from vt.symx import (fresh_bool, check, reach, note, choice, assume)
from vt.harness import C01

TERMINAL = ('SUCCESS', 'ERROR', 'CANCELLED')

# the 'pause' engine command leaves commands in the backlog (t2) while
# another branch (tb) is still running
PAUSE_CMD_BRANCH = """
version: '2.0'
wf:
  tasks:
    t1:
      action: std.noop
      on-success: [pause, t2]
    tb:
      action: std.noop
      on-success: t3
    t2:
      action: std.noop
    t3:
      action: std.noop
"""


def _c11_case(shape, text, preemptions, max_step, wf_name='wf',
              pause_first=False, target='root'):
    def case():
        sig = 'C11.E:%s' % shape
        w, start = scenario.make(text, sig, preemptions,
                                 C01.FIXED_GUARDS.get(shape), wf_name=wf_name)
        with w:
            ex, wid = start()
            st = {}
            state = choice('stop_state', list(TERMINAL))
            at = choice('stop_at', list(range(0, max_step + 1)))

            def victim():
                if target == 'root':
                    return wid
                subs = [x for x in w.rows('WorkflowExecution')
                        if x['task_execution_id']]
                return subs[0]['id'] if subs else None

            def stop(ex_, w_):
                vid = victim()
                if vid is None:
                    return
                before = w_.wf_ex(vid)
                if before['state'] in TERMINAL:
                    return
                if pause_first:
                    ex_.operator('pause_workflow', vid)
                    if w_.wf_ex(vid)['state'] != 'PAUSED':
                        return
                    reach('paused-then-stopped')
                r, errs = ex_.operator('stop_workflow', vid, state, 'MSG')
                after = w_.wf_ex(vid)
                st['vid'] = vid
                if (before['runtime_context'] or {}).get('backlog_commands'):
                    reach('stopped-while-backlog')
                st['tasks'] = {t['id'] for t in w_.rows('TaskExecution')}
                st['row'] = dict(after)
                reach('stopped')
                reach('stopped-' + state)
                inf = {'signature': sig + ':stop-ignored:%s%s'
                       % (state, ':paused' if pause_first else ''),
                       'trace': ex_.trace[-20:], 'errors': [repr(e)[:150]
                                                            for e in errs]}
                from mistral import exceptions as exc
                refused = any(isinstance(e[1], exc.MistralException)
                              for e in errs)
                if refused and state == 'SUCCESS' and \
                        before['state'] == 'PAUSED' or (
                            pause_first and state == 'SUCCESS' and refused):
                    # PAUSED -> SUCCESS is not a lifecycle move: the request
                    # is refused with a declared error and nothing changes
                    reach('refused')
                    check(after['state'] == 'PAUSED',
                          'refused-stop-changed-state',
                          {'signature': sig + ':refused-but-changed'})
                    st.pop('row', None)
                    return
                check(after['state'] == state,
                      'stop-did-not-set-requested-state', inf)
                if after['state'] == state:
                    check(after['state_info'] == 'MSG',
                          'stop-message-lost',
                          {'signature': sig + ':message'})
            scenario.run_with_ops(ex, w, [[at, stop]])
            reach('quiescent')
            if 'row' not in st:
                return
            vid = st['vid']
            final = w.wf_ex(vid)
            info = {'trace': ex.trace[-30:]}
            if st['row']['state'] == state:
                check(final['state'] == state and
                      final['state_info'] == 'MSG',
                      'late-result-changed-stopped-workflow',
                      dict(info, signature=sig + ':late-state'))
                check(final['output'] == st['row']['output'],
                      'late-result-changed-output',
                      dict(info, signature=sig + ':late-output'))
            # nothing new inside the stopped execution
            new = [t for t in w.rows('TaskExecution')
                   if t['id'] not in st['tasks']
                   and t['workflow_execution_id'] == vid]
            check(not new, 'task-created-after-stop',
                  dict(info, signature=sig + ':created-after-stop',
                       tasks=[t['name'] for t in new]))
            if state == 'CANCELLED' and st['row']['state'] == state:
                # the whole tree below is cancelled
                tree = [vid]
                for x in w.rows('WorkflowExecution'):
                    pt = x['task_execution_id']
                    if pt and any(t['id'] == pt and
                                  t['workflow_execution_id'] in tree
                                  for t in w.rows('TaskExecution')):
                        tree.append(x['id'])
                for x in w.rows('WorkflowExecution'):
                    if x['id'] in tree and x['id'] != vid:
                        reach('has-subtree')
                        check(x['state'] in TERMINAL,
                              'sub-workflow-left-unfinished-after-cancel',
                              dict(info, signature=sig + ':subtree'))
                new_below = [t for t in w.rows('TaskExecution')
                             if t['id'] not in st['tasks']
                             and t['workflow_execution_id'] in tree]
                check(not new_below, 'task-created-below-cancelled',
                      dict(info, signature=sig + ':created-below-cancel'))
            # a finished sub-workflow reports to its parent exactly once
            for x in w.rows('WorkflowExecution'):
                if not x['task_execution_id']:
                    continue
                reports = [e for e in ex.w.delivered + ex.w.events
                           if e.kind == 'rpc'
                           and e.payload[0] == 'on_action_complete'
                           and e.payload[1][0] == x['id']]
                if x['state'] in TERMINAL:
                    reach('sub-finished')
                    check(len(reports) == 1,
                          'sub-workflow-reported-%d-times' % len(reports),
                          dict(info, signature=sig + ':report-count'))
                    pt = [t for t in w.rows('TaskExecution')
                          if t['id'] == x['task_execution_id']][0]
                    if (pt['spec'] or {}).get('with-items'):
                        # the task aggregates its items
                        sibs = [y for y in w.rows('WorkflowExecution')
                                if y['task_execution_id'] == pt['id']]
                        if all(y['state'] in TERMINAL for y in sibs) and \
                                pt['state'] in TERMINAL + ('RUNNING',):
                            want_ = 'CANCELLED' if any(
                                y['state'] == 'CANCELLED' for y in sibs) \
                                else ('ERROR' if any(y['state'] == 'ERROR'
                                                     for y in sibs)
                                      else 'SUCCESS')
                            reach('items-all-finished')
                            check(pt['state'] == want_,
                                  'with-items-parent-task-state-wrong',
                                  dict(info, signature=sig + ':items-parent',
                                       parent=pt['state'], want=want_,
                                       kids=[y['state'] for y in sibs]))
                        continue
                    check(pt['state'] == x['state'],
                          'parent-task-state-differs-from-sub-workflow',
                          dict(info, signature=sig + ':parent-task',
                               parent=pt['state'], child=x['state']))
    return case


@obligation(
    'C11.E', engine='symx+world(minidb)',
    functions=['mistral.engine.default_engine:DefaultEngine.stop_workflow',
               'mistral.engine.workflow_handler:stop_workflow',
               'mistral.engine.workflows:Workflow.stop',
               'mistral.engine.workflows:Workflow._cancel_workflow',
               'mistral.engine.workflows:Workflow._fail_workflow',
               'mistral.engine.workflows:Workflow._succeed_workflow',
               'mistral.engine.workflows:Workflow.'
               '_send_result_to_parent_workflow',
               'mistral.engine.dispatcher:_process_commands',
               'mistral.engine.task_handler:_check_affected_tasks',
               'mistral.engine.task_handler:_refresh_task_state',
               'mistral.engine.workflow_handler:check_and_complete',
               'mistral.engine.tasks:Task.complete'],
    bounds={'quick': 'shapes fork_join, chain, two branches with the pause '
                     'engine command (commands waiting in the backlog when '
                     'the stop arrives), parent+child sub-workflow, a '
                     'with-items task over two sub-workflows '
                     '(stop on the root or on the child); stop state '
                     'symbolic in {SUCCESS, ERROR, CANCELLED}; stop position '
                     'symbolic over the first 10 deliveries; optionally '
                     'paused first; then every in-flight event is '
                     'delivered; outcomes symbolic; FIFO',
            'thorough': 'first 16 deliveries, <= 1 out-of-order delivery'},
    stubs=['minidb', 'QueueRPC', 'FakeScheduler', 'FakeExecutor',
           'post-commit queue inline'],
    outside='trees deeper than 2; with-items children',
    timeout=(400, 2400))
def c11_e(ctx):
    """a stopped execution holds the requested state and message; nothing
    is created in it afterwards and late results change neither state nor
    output; after a cancel every sub-workflow below is finished and reports
    to its parent exactly once with the matching parent task state"""
    boot()
    ms = ctx.pick(10, 16)
    k = ctx.pick(0, 1)
    yield Case('fork_join', _c11_case('fork_join', shapes.FORK_JOIN, k, ms),
               needed=['stopped', 'quiescent'])
    yield Case('chain', _c11_case('chain', shapes.CHAIN, k, ms),
               needed=['stopped', 'quiescent'])
    yield Case('chain/paused-first',
               _c11_case('chain', shapes.CHAIN, k, ms, pause_first=True),
               needed=['paused-then-stopped', 'quiescent'])
    yield Case('pause_cmd_branch',
               _c11_case('pause_cmd_branch', PAUSE_CMD_BRANCH, max(k, 1), ms),
               needed=['stopped', 'quiescent', 'stopped-while-backlog'])
    yield Case('subwf/root', _c11_case('subwf', shapes.SUBWF, k, ms,
                                       wf_name='parent'),
               needed=['stopped', 'quiescent', 'has-subtree',
                       'sub-finished'])
    yield Case('subwf/child', _c11_case('subwf', shapes.SUBWF, k, ms,
                                        wf_name='parent', target='child'),
               needed=['stopped', 'quiescent', 'sub-finished'])
    from vt.harness import C10
    yield Case('items/root', _c11_case('items', C10.TREE_ITEMS, k, ms,
                                       wf_name='parent'),
               needed=['stopped', 'quiescent', 'has-subtree',
                       'sub-finished'])
    yield Case('items/child', _c11_case('items', C10.TREE_ITEMS, k, ms,
                                        wf_name='parent', target='child'),
               needed=['stopped', 'quiescent', 'sub-finished',
                       'items-all-finished'])
