"""C11 - stop and cancel end the whole execution tree; late results change
nothing."""
from vt import symx, shapes, scenario
from vt.kit import obligation, Case, boot
from vt.symx import (fresh_bool, check, reach, note, choice, assume)
from vt.harness import C01

TERMINAL = ('SUCCESS', 'ERROR', 'CANCELLED')

# the 'pause' engine command leaves commands in the backlog (t2) while
# another branch (tb) is still running
PAUSE_CMD_BRANCH = """
version: '2.0'
wf:
  tasks:
    t1:
      action: std.noop
      on-success: [pause, t2]
    tb:
      action: std.noop
      on-success: t3
    t2:
      action: std.noop
    t3:
      action: std.noop
"""


def _c11_case(shape, text, preemptions, max_step, wf_name='wf',
              pause_first=False, target='root'):
    def case():
        sig = 'C11.E:%s' % shape
        w, start = scenario.make(text, sig, preemptions,
                                 C01.FIXED_GUARDS.get(shape), wf_name=wf_name)
        with w:
            ex, wid = start()
            st = {}
            state = choice('stop_state', list(TERMINAL))
            at = choice('stop_at', list(range(0, max_step + 1)))

            def victim():
                if target == 'root':
                    return wid
                subs = [x for x in w.rows('WorkflowExecution')
                        if x['task_execution_id']]
                return subs[0]['id'] if subs else None

            def stop(ex_, w_):
                vid = victim()
                if vid is None:
                    return
                before = w_.wf_ex(vid)
                if before['state'] in TERMINAL:
                    return
                if pause_first:
                    ex_.operator('pause_workflow', vid)
                    if w_.wf_ex(vid)['state'] != 'PAUSED':
                        return
                    reach('paused-then-stopped')
                r, errs = ex_.operator('stop_workflow', vid, state, 'MSG')
                after = w_.wf_ex(vid)
                st['vid'] = vid
                if (before['runtime_context'] or {}).get('backlog_commands'):
                    reach('stopped-while-backlog')
                st['tasks'] = {t['id'] for t in w_.rows('TaskExecution')}
                st['row'] = dict(after)
                reach('stopped')
                reach('stopped-' + state)
                inf = {'signature': sig + ':stop-ignored:%s%s'
                       % (state, ':paused' if pause_first else ''),
                       'trace': ex_.trace[-20:], 'errors': [repr(e)[:150]
                                                            for e in errs]}
                from mistral import exceptions as exc
                refused = any(isinstance(e[1], exc.MistralException)
                              for e in errs)
                if refused and state == 'SUCCESS' and \
                        before['state'] == 'PAUSED' or (
                            pause_first and state == 'SUCCESS' and refused):
                    # PAUSED -> SUCCESS is not a lifecycle move: the request
                    # is refused with a declared error and nothing changes
                    reach('refused')
                    check(after['state'] == 'PAUSED',
                          'refused-stop-changed-state',
                          {'signature': sig + ':refused-but-changed'})
                    st.pop('row', None)
                    return
                check(after['state'] == state,
                      'stop-did-not-set-requested-state', inf)
                if after['state'] == state:
                    check(after['state_info'] == 'MSG',
                          'stop-message-lost',
                          {'signature': sig + ':message'})
            scenario.run_with_ops(ex, w, [[at, stop]])
            reach('quiescent')
            if 'row' not in st:
                return
            vid = st['vid']
            final = w.wf_ex(vid)
            info = {'trace': ex.trace[-30:]}
            if st['row']['state'] == state:
                check(final['state'] == state and
                      final['state_info'] == 'MSG',
                      'late-result-changed-stopped-workflow',
                      dict(info, signature=sig + ':late-state'))
                check(final['output'] == st['row']['output'],
                      'late-result-changed-output',
                      dict(info, signature=sig + ':late-output'))
            # nothing new inside the stopped execution
            new = [t for t in w.rows('TaskExecution')
                   if t['id'] not in st['tasks']
                   and t['workflow_execution_id'] == vid]
            check(not new, 'task-created-after-stop',
                  dict(info, signature=sig + ':created-after-stop',
                       tasks=[t['name'] for t in new]))
            if state == 'CANCELLED' and st['row']['state'] == state:
                # the whole tree below is cancelled
                tree = [vid]
                for x in w.rows('WorkflowExecution'):
                    pt = x['task_execution_id']
                    if pt and any(t['id'] == pt and
                                  t['workflow_execution_id'] in tree
                                  for t in w.rows('TaskExecution')):
                        tree.append(x['id'])
                for x in w.rows('WorkflowExecution'):
                    if x['id'] in tree and x['id'] != vid:
                        reach('has-subtree')
                        check(x['state'] in TERMINAL,
                              'sub-workflow-left-unfinished-after-cancel',
                              dict(info, signature=sig + ':subtree'))
                new_below = [t for t in w.rows('TaskExecution')
                             if t['id'] not in st['tasks']
                             and t['workflow_execution_id'] in tree]
                check(not new_below, 'task-created-below-cancelled',
                      dict(info, signature=sig + ':created-below-cancel'))
            # a finished sub-workflow reports to its parent exactly once
            for x in w.rows('WorkflowExecution'):
                if not x['task_execution_id']:
                    continue
                reports = [e for e in ex.w.delivered + ex.w.events
                           if e.kind == 'rpc'
                           and e.payload[0] == 'on_action_complete'
                           and e.payload[1][0] == x['id']]
                if x['state'] in TERMINAL:
                    reach('sub-finished')
                    check(len(reports) == 1,
                          'sub-workflow-reported-%d-times' % len(reports),
                          dict(info, signature=sig + ':report-count'))
                    pt = [t for t in w.rows('TaskExecution')
                          if t['id'] == x['task_execution_id']][0]
                    if (pt['spec'] or {}).get('with-items'):
                        # the task aggregates its items
                        sibs = [y for y in w.rows('WorkflowExecution')
                                if y['task_execution_id'] == pt['id']]
                        if all(y['state'] in TERMINAL for y in sibs) and \
                                pt['state'] in TERMINAL + ('RUNNING',):
                            want_ = 'CANCELLED' if any(
                                y['state'] == 'CANCELLED' for y in sibs) \
                                else ('ERROR' if any(y['state'] == 'ERROR'
                                                     for y in sibs)
                                      else 'SUCCESS')
                            reach('items-all-finished')
                            check(pt['state'] == want_,
                                  'with-items-parent-task-state-wrong',
                                  dict(info, signature=sig + ':items-parent',
                                       parent=pt['state'], want=want_,
                                       kids=[y['state'] for y in sibs]))
                        continue
                    check(pt['state'] == x['state'],
                          'parent-task-state-differs-from-sub-workflow',
                          dict(info, signature=sig + ':parent-task',
                               parent=pt['state'], child=x['state']))
    return case


@obligation(
    'C11.E', engine='symx+world(minidb)',
    functions=['mistral.engine.default_engine:DefaultEngine.stop_workflow',
               'mistral.engine.workflow_handler:stop_workflow',
               'mistral.engine.workflows:Workflow.stop',
               'mistral.engine.workflows:Workflow._cancel_workflow',
               'mistral.engine.workflows:Workflow._fail_workflow',
               'mistral.engine.workflows:Workflow._succeed_workflow',
               'mistral.engine.workflows:Workflow.'
               '_send_result_to_parent_workflow',
               'mistral.engine.dispatcher:_process_commands',
               'mistral.engine.task_handler:_check_affected_tasks',
               'mistral.engine.task_handler:_refresh_task_state',
               'mistral.engine.workflow_handler:check_and_complete',
               'mistral.engine.tasks:Task.complete'],
    bounds={'quick': 'shapes fork_join, chain, two branches with the pause '
                     'engine command (commands waiting in the backlog when '
                     'the stop arrives), parent+child sub-workflow, a '
                     'with-items task over two sub-workflows '
                     '(stop on the root or on the child); stop state '
                     'symbolic in {SUCCESS, ERROR, CANCELLED}; stop position '
                     'symbolic over the first 10 deliveries; optionally '
                     'paused first; then every in-flight event is '
                     'delivered; outcomes symbolic; FIFO',
            'thorough': 'first 16 deliveries, <= 1 out-of-order delivery'},
    stubs=['minidb', 'QueueRPC', 'FakeScheduler', 'FakeExecutor',
           'post-commit queue inline'],
    outside='trees deeper than 2; with-items children',
    timeout=(400, 2400))
def c11_e(ctx):
    """a stopped execution holds the requested state and message; nothing
    is created in it afterwards and late results change neither state nor
    output; after a cancel every sub-workflow below is finished and reports
    to its parent exactly once with the matching parent task state"""
    boot()
    ms = ctx.pick(10, 16)
    k = ctx.pick(0, 1)
    yield Case('fork_join', _c11_case('fork_join', shapes.FORK_JOIN, k, ms),
               needed=['stopped', 'quiescent'])
    yield Case('chain', _c11_case('chain', shapes.CHAIN, k, ms),
               needed=['stopped', 'quiescent'])
    yield Case('chain/paused-first',
               _c11_case('chain', shapes.CHAIN, k, ms, pause_first=True),
               needed=['paused-then-stopped', 'quiescent'])
    yield Case('pause_cmd_branch',
               _c11_case('pause_cmd_branch', PAUSE_CMD_BRANCH, max(k, 1), ms),
               needed=['stopped', 'quiescent', 'stopped-while-backlog'])
    yield Case('subwf/root', _c11_case('subwf', shapes.SUBWF, k, ms,
                                       wf_name='parent'),
               needed=['stopped', 'quiescent', 'has-subtree',
                       'sub-finished'])
    yield Case('subwf/child', _c11_case('subwf', shapes.SUBWF, k, ms,
                                        wf_name='parent', target='child'),
               needed=['stopped', 'quiescent', 'sub-finished'])
    from vt.harness import C10
    yield Case('items/root', _c11_case('items', C10.TREE_ITEMS, k, ms,
                                       wf_name='parent'),
               needed=['stopped', 'quiescent', 'has-subtree',
                       'sub-finished'])
    yield Case('items/child', _c11_case('items', C10.TREE_ITEMS, k, ms,
                                        wf_name='parent', target='child'),
               needed=['stopped', 'quiescent', 'sub-finished',
                       'items-all-finished'])


# ---------------------------------------------------------------------------
# C11.O  a cancel reaches sub-workflows whose parent TASK has already
# completed
# ---------------------------------------------------------------------------
ORPHAN_TIMEOUT = """
version: '2.0'
parent:
  tasks:
    ts:
      workflow: child
      timeout: 5
      on-error: h
    z:
      action: std.noop
    h:
      action: std.noop
child:
  tasks:
    c1:
      action: std.noop
"""

ORPHAN_ITEMS = """
version: '2.0'
parent:
  tasks:
    ts:
      with-items: i in [0, 1]
      workflow: child
    z:
      action: std.noop
child:
  tasks:
    c1:
      action: std.noop
"""


def _c11_orphan_case(variant):
    def case():
        from vt.world import World
        from vt.explorer import Explorer
        from mistral_lib import actions as ml
        sig = 'C11.O:%s' % variant
        w = World([ORPHAN_TIMEOUT if variant == 'timeout'
                   else ORPHAN_ITEMS])
        with w:
            ex = Explorer(w, sig, preemptions=0)
            ex.result_for = lambda ev: ml.Result(data='ok')
            wid = w.start('parent')
            ex.check_invariants()

            def tname(ev):
                tid = ev.payload['exec_ctx'].get('task_execution_id')
                return [t for t in w.rows('TaskExecution')
                        if t['id'] == tid][0]['name']

            def drain(skip_timer):
                for _ in range(60):
                    evs = [e for e in w.events
                           if not (e.kind == 'action' and
                                   tname(e) in ('c1', 'z'))
                           and not (skip_timer and e.kind == 'job' and
                                    'fail_task_if_incomplete' in e.label)]
                    if not evs:
                        return
                    ex.deliver(evs[0])
            drain(True)
            kids = [x for x in w.rows('WorkflowExecution')
                    if x['task_execution_id']]
            if variant == 'timeout':
                timers = [e for e in w.events if e.kind == 'job' and
                          'fail_task_if_incomplete' in e.label]
                assume(len(timers) == 1 and len(kids) == 1)
                ex.deliver(timers[0])
                drain(True)
                ts = w.task('ts', wid)
                assume(ts['state'] == 'ERROR')
            else:
                assume(len(kids) == 2)
                ex.operator('stop_workflow', kids[0]['id'], 'CANCELLED',
                            'item cancelled')
                drain(True)
                ts = w.task('ts', wid)
                assume(ts['state'] == 'CANCELLED')
            running = [x for x in w.rows('WorkflowExecution')
                       if x['task_execution_id']
                       and x['state'] == 'RUNNING']
            assume(running and w.wf_ex(wid)['state'] == 'RUNNING')
            reach('task-done-child-running')
            r, errs = ex.operator('stop_workflow', wid, 'CANCELLED', 'MSG')
            tasks_at_stop = {t['id'] for t in w.rows('TaskExecution')}
            drain(False)      # the cascade, but no action result yet
            left = [(x['workflow_name'], x['state'])
                    for x in w.rows('WorkflowExecution')
                    if x['state'] not in TERMINAL]
            check(not left, 'sub-workflow-still-running-after-cancel',
                  {'signature': sig + ':left-running', 'left': left,
                   'trace': ex.trace[-20:]})
            ex.run()          # late results, timers
            reach('quiescent')
            rows = w.rows('WorkflowExecution')
            info = {'trace': ex.trace[-30:],
                    'states': [(x['workflow_name'], x['state'])
                               for x in rows],
                    'errors': [repr(e)[:160] for e in errs]}
            check(w.wf_ex(wid)['state'] == 'CANCELLED',
                  'stop-did-not-set-requested-state',
                  dict(info, signature=sig + ':root'))
            check(all(x['state'] in TERMINAL for x in rows),
                  'sub-workflow-left-unfinished-after-cancel',
                  dict(info, signature=sig + ':subtree'))
            new = [t for t in w.rows('TaskExecution')
                   if t['id'] not in tasks_at_stop]
            check(not new, 'task-created-below-cancelled',
                  dict(info, signature=sig + ':created-below-cancel',
                       tasks=[t['name'] for t in new]))
    return case


@obligation(
    'C11.O', engine='symx+world(minidb)',
    functions=['mistral.engine.workflow_handler:stop_workflow',
               'mistral.engine.workflows:Workflow.stop',
               'mistral.engine.workflows:Workflow._cancel_workflow',
               'mistral.engine.policies:_fail_task_if_incomplete',
               'mistral.engine.tasks:WithItemsTask.on_action_complete'],
    bounds='two situations in which a sub-workflow is still RUNNING although '
           'the task that started it has completed: the task was failed by '
           'its timeout (error handled, parent continues), or it is a '
           'with-items task one of whose items was cancelled on its own; '
           'then the root is cancelled and everything in flight is '
           'delivered; FIFO',
    stubs=['minidb', 'QueueRPC', 'FakeScheduler', 'FakeExecutor',
           'post-commit queue inline'],
    outside='deeper trees')
def c11_o(ctx):
    """after the cancel every execution of the tree is finished - also the
    sub-workflows below already completed tasks - and nothing new appears"""
    boot()
    for v in ('timeout', 'items'):
        yield Case(v, _c11_orphan_case(v),
                   needed=['task-done-child-running', 'quiescent'])
