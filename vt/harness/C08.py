"""C08 - task policies bound and shape execution as documented."""
from vt import symx, shapes, scenario
from vt.kit import obligation, Case, boot
from vt.symx import (fresh_bool, check, reach, note, choice, assume)

RETRY = """
version: '2.0'
wf:
  input:
    - k: 2
  tasks:
    t:
      action: std.noop
      retry:
        count: @@COUNT@@
        delay: 1
@@EXTRA@@
      on-success: ok
      on-error: ko
    ok:
      action: std.noop
    ko:
      action: std.noop
"""

DEFAULTS = """
version: '2.0'
wf:
  task-defaults:
    retry:
      count: 2
      delay: 1
  tasks:
    t:
      action: std.noop
@@OVERRIDE@@
"""

WAIT = """
version: '2.0'
wf:
  tasks:
    t:
      action: std.noop
      @@WHICH@@: 5
      on-success: nxt
      on-error: err
    nxt:
      action: std.noop
    err:
      action: std.noop
"""

TIMEOUT = """
version: '2.0'
wf:
  tasks:
    t:
      action: std.noop
      timeout: 3
      on-success: nxt
      on-error: err
    nxt:
      action: std.noop
    err:
      action: std.noop
"""

FAIL_ON = """
version: '2.0'
wf:
  tasks:
    t:
      action: std.noop
      fail-on: <% $.gfail %>
      on-success: nxt
      on-error: err
    nxt:
      action: std.noop
    err:
      action: std.noop
"""

PAUSE_BEFORE = """
version: '2.0'
wf:
  tasks:
    a:
      action: std.noop
      on-success: t
    t:
      action: std.noop
      pause-before: true
      on-success: nxt
    nxt:
      action: std.noop
"""


def _world(text, sig, preemptions):
    return scenario.make(text, sig, preemptions)


def _attempt_outcomes(ex, w, tname='t'):
    """the i-th action execution of task t gets outcome 'attempt<i>'"""
    from mistral_lib import actions as ml

    def result_for(ev):
        tid = ev.payload['exec_ctx'].get('task_execution_id')
        trow = [t for t in w.rows('TaskExecution') if t['id'] == tid][0]
        if trow['name'] != tname:
            return ml.Result(data='ok')
        i = len([a for a in w.actions(tid) if a['id'] != ev.payload['id']
                 and a['state'] != 'RUNNING'])
        out = ex.outcome('attempt%d' % i)
        return ml.Result(data='r%d' % i) if out == 'SUCCESS' \
            else ml.Result(error='boom%d' % i)
    ex.result_for = result_for


def _retry_case(count, extra, preemptions):
    def case():
        text = RETRY.replace('@@COUNT@@', str(count)).replace(
            '@@EXTRA@@', {'': '', 'continue':
                          '        continue-on: <% $.gcont %>',
                          'break': '        break-on: <% $.gbreak %>'}[extra])
        sig = 'C08.retry:%s:%s' % (count, extra or 'plain')
        w, start = _world(text, sig, preemptions)
        with w:
            ex, wid = start_k(start, w, count)
            _attempt_outcomes(ex, w)
            ex.rerun_allowed = True     # retries move ERROR -> DELAYED
            ex.run()
            reach('quiescent')
            k = count if isinstance(count, int) else 2
            t = w.task('t', wid)
            acts = sorted(w.actions(t['id']), key=lambda a: a['id'])
            n = len(acts)
            outs = [ex.outcomes.get('attempt%d' % i) for i in range(n)]
            info = {'signature': sig, 'attempts': outs, 'k': k,
                    'trace': ex.trace[-30:], 'task': t['state']}

            def inf(s):
                d = dict(info)
                d['signature'] = sig + ':' + s
                return d
            check(n <= k + 1, 'more-attempts-than-count-plus-one',
                  inf('too-many-attempts'))
            check(n >= 1, 'no-attempt', inf('no-attempt'))
            if n == 0:
                return
            gcont = ex.guards.get('<% $.gcont %>')
            gbreak = ex.guards.get('<% $.gbreak %>')
            # when must the loop have gone on after attempt i (< k)?
            for i, o in enumerate(outs[:-1]):
                if extra == 'continue':
                    check(bool(gcont), 'retried-although-continue-on-false',
                          inf('continue-on'))
                else:
                    check(o == 'ERROR', 'retried-after-success',
                          inf('retry-after-success'))
                if extra == 'break' and o == 'ERROR':
                    check(not gbreak, 'retried-although-break-on-true',
                          inf('break-on'))
            last = outs[-1]
            more_possible = n < k + 1
            if more_possible:
                if extra == 'continue':
                    stop = not gcont
                elif extra == 'break':
                    stop = last == 'SUCCESS' or bool(gbreak)
                else:
                    stop = last == 'SUCCESS'
                check(stop, 'stopped-although-retries-remain',
                      inf('stopped-early'))
            else:
                reach('exhausted')
            check(t['state'] == last, 'task-state-not-last-attempt',
                  inf('final-state'))
            acc = [a for a in acts if a['accepted']]
            check(len(acc) == 1 and acc[0]['id'] == acts[-1]['id'],
                  'accepted-result-is-not-the-last-attempt',
                  inf('accepted'))
            follow = 'ok' if last == 'SUCCESS' else 'ko'
            other = 'ko' if last == 'SUCCESS' else 'ok'
            check(w.task(follow, wid) is not None and
                  w.task(other, wid) is None,
                  'follow-up-does-not-match-last-attempt',
                  inf('follow-up'))
            # each retry waited for its timer: one continue job per retry
            jobs = [e for e in w.delivered if e.kind == 'job'
                    and '_continue_task' in e.label]
            check(len(jobs) == n - 1 and
                  all(e.payload.run_after == 1 for e in jobs),
                  'retry-delay-not-applied', inf('delay'))
            if n > 1:
                reach('retried')
    return case


def start_k(start, w, count):
    ex, wid = start()
    return ex, wid


def _wait_case(which, preemptions):
    def case():
        text = WAIT.replace('@@WHICH@@', which)
        sig = 'C08.%s' % which
        w, start = _world(text, sig, preemptions)
        with w:
            ex, wid = start()
            ex.rerun_allowed = True
            st = {'delayed': 0, 'actions_when_delayed': None}
            real_deliver = ex.deliver

            def deliver(ev, *a, **k):
                real_deliver(ev, *a, **k)
                t = w.task('t', wid)
                if t is not None and t['state'] == 'DELAYED':
                    st['delayed'] += 1
                    reach('delayed')
                    if which == 'wait-before':
                        check(not w.actions(t['id']),
                              'action-started-during-wait-before',
                              {'signature': sig + ':started-early'})
                    else:
                        check(w.task('nxt', wid) is None and
                              w.task('err', wid) is None,
                              'follow-up-started-during-wait-after',
                              {'signature': sig + ':follow-up-early'})
            ex.deliver = deliver
            ex.run()
            reach('quiescent')
            t = w.task('t', wid)
            out = ex.outcomes.get('t')
            info = {'trace': ex.trace[-25:], 'task': t['state']}
            check(st['delayed'] > 0, 'never-delayed',
                  dict(info, signature=sig + ':no-delay'))
            jobs = [e for e in w.delivered if e.kind == 'job' and (
                '_continue_task' in e.label or '_complete_task' in e.label)]
            check(len(jobs) == 1 and jobs[0].payload.run_after == 5,
                  'delay-job-count-or-delay-wrong',
                  dict(info, signature=sig + ':job', n=len(jobs)))
            check(len(w.actions(t['id'])) == 1, 'action-count-wrong',
                  dict(info, signature=sig + ':actions'))
            check(t['state'] == out, 'final-state-lost',
                  dict(info, signature=sig + ':final-state'))
            follow = 'nxt' if out == 'SUCCESS' else 'err'
            check(w.task(follow, wid) is not None,
                  'follow-up-lost', dict(info, signature=sig + ':lost'))
            check(w.wf_ex(wid)['state'] in ('SUCCESS', 'ERROR'),
                  'workflow-not-finished', dict(info, signature=sig + ':wf'))
    return case


def _timeout_case(preemptions):
    def case():
        sig = 'C08.timeout'
        w, start = _world(TIMEOUT, sig, preemptions)
        with w:
            ex, wid = start()
            ex.run()
            reach('quiescent')
            t = w.task('t', wid)
            out = ex.outcomes.get('t')
            order = [e for e in w.delivered
                     if (e.kind == 'job' and 'fail_task_if_incomplete'
                         in e.label) or
                     (e.kind == 'rpc' and e.payload[0] == 'on_action_complete'
                      and e.payload[1][0] in [a['id'] for a in
                                               w.actions(t['id'])])]
            timer_first = order and order[0].kind == 'job'
            info = {'trace': ex.trace[-25:], 'task': t['state'],
                    'info': t['state_info'], 'timer_first': bool(timer_first)}
            check(len([e for e in order if e.kind == 'job']) == 1,
                  'timeout-timer-count-wrong',
                  dict(info, signature=sig + ':timer'))
            if timer_first:
                reach('timed-out')
                check(t['state'] == 'ERROR' and 'timed out' in
                      (t['state_info'] or ''),
                      'incomplete-task-not-failed-by-timeout',
                      dict(info, signature=sig + ':not-failed'))
                check(w.task('err', wid) is not None and
                      w.task('nxt', wid) is None,
                      'late-result-changed-routing',
                      dict(info, signature=sig + ':late-result'))
            else:
                reach('completed-in-time')
                check(t['state'] == out and 'timed out' not in
                      (t['state_info'] or ''),
                      'completed-task-touched-by-timer',
                      dict(info, signature=sig + ':touched'))
    return case


def _fail_on_case(preemptions):
    def case():
        sig = 'C08.fail-on'
        w, start = _world(FAIL_ON, sig, preemptions)
        with w:
            ex, wid = start()
            ex.rerun_allowed = True
            ex.run()
            reach('quiescent')
            t = w.task('t', wid)
            out = ex.outcomes.get('t')
            g = ex.guards.get('<% $.gfail %>')
            want = 'ERROR' if (out == 'ERROR' or g) else 'SUCCESS'
            info = {'trace': ex.trace[-20:], 'out': out, 'fail_on': g,
                    'task': t['state']}
            if out == 'SUCCESS' and g:
                reach('failed-by-policy')
            check(t['state'] == want, 'fail-on-verdict-wrong',
                  dict(info, signature=sig + ':verdict'))
            follow = 'nxt' if want == 'SUCCESS' else 'err'
            check(w.task(follow, wid) is not None and
                  w.task('err' if follow == 'nxt' else 'nxt', wid) is None,
                  'routing-ignores-fail-on',
                  dict(info, signature=sig + ':routing'))
    return case


def _pause_before_case(preemptions):
    def case():
        sig = 'C08.pause-before'
        w, start = _world(PAUSE_BEFORE, sig, preemptions)
        with w:
            ex, wid = start()
            ex.run()
            t = w.task('t', wid)
            wf = w.wf_ex(wid)
            info = {'trace': ex.trace[-20:]}
            if ex.outcomes.get('a') != 'SUCCESS':
                return
            reach('paused-before')
            check(wf['state'] == 'PAUSED', 'workflow-not-paused',
                  dict(info, signature=sig + ':not-paused', wf=wf['state']))
            check(t is not None and t['state'] == 'IDLE' and
                  not w.actions(t['id']),
                  'action-started-before-pause',
                  dict(info, signature=sig + ':started',
                       task=t and t['state']))
            ex.operator('resume_workflow', wid)
            ex.run()
            reach('resumed')
            t = w.task('t', wid)
            check(len(w.actions(t['id'])) == 1 and
                  t['state'] == ex.outcomes.get('t'),
                  'task-did-not-run-once-after-resume',
                  dict(info, signature=sig + ':after-resume',
                       n=len(w.actions(t['id']))))
            # it pauses again?  no: the flag is a policy of the task, it
            # must not loop for ever
            check(w.wf_ex(wid)['state'] in ('SUCCESS', 'ERROR'),
                  'workflow-not-finished-after-resume',
                  dict(info, signature=sig + ':wf',
                       wf=w.wf_ex(wid)['state']))
    return case


def _defaults_case(override, preemptions):
    def case():
        text = DEFAULTS.replace('@@OVERRIDE@@', {
            'none': '', 'zero': '      retry:\n        count: 0\n'
                                '        delay: 1',
            'one': '      retry:\n        count: 1\n        delay: 1'}[
                override])
        sig = 'C08.defaults:%s' % override
        w, start = _world(text, sig, preemptions)
        with w:
            ex, wid = start()
            _attempt_outcomes(ex, w)
            ex.rerun_allowed = True
            ex.outcomes.update({'attempt%d' % i: 'ERROR' for i in range(6)})
            ex.run()
            reach('quiescent')
            t = w.task('t', wid)
            n = len(w.actions(t['id']))
            want = {'none': 3, 'zero': 1, 'one': 2}[override]
            check(n == want, 'task-level-policy-does-not-override-defaults',
                  {'signature': sig + ':attempts', 'n': n, 'want': want})
    return case


WAIT_BAD = """
version: '2.0'
wf:
  tasks:
    t:
      action: std.echo output=1
      input:
        extra: 1
      @@WHICH@@: 1
      on-error: err
    err:
      action: std.noop
"""


def _wait_bad_input_case(which):
    """the action of a postponed task cannot be started (unexpected input
    parameter): the task must end ERROR exactly as without the policy"""
    def case():
        from vt.world import World
        sig = 'C08.%s-bad-input' % which
        w = World([WAIT_BAD.replace('@@WHICH@@', which)])
        with w:
            wid = w.start('wf')
            w.run(max_events=60)
            reach('quiescent')
            t = w.task('t', wid)
            wf = w.wf_ex(wid)
            info = {'task': t and t['state'], 'wf': wf['state'],
                    'errors': [(m, repr(e)[:160]) for m, e in w.errors]}
            check(t is not None and t['state'] == 'ERROR' and
                  wf['state'] in ('ERROR', 'SUCCESS'),
                  'postponed-task-that-cannot-start-is-stuck',
                  dict(info, signature=sig + ':stuck'))
            check(not w.errors, 'scheduler-job-raised',
                  dict(info, signature=sig + ':job-raised'))
    return case


EXPR_POLICIES = """
version: '2.0'
wf:
  input:
    - wb
    - wa
    - to
    - pb
@@DEFAULTS@@
  tasks:
    t:
      action: std.noop
@@TASK@@
"""
_POLICY_LINES = ("wait-before: <% $.wb %>", "wait-after: <% $.wa %>",
                 "timeout: <% $.to %>", "pause-before: <% $.pb %>")


def _two_runs_case(level):
    """the same definition is run twice in one engine process with different
    inputs: every policy value is the one of ITS execution (no state leaks
    through cached specs / policy objects)"""
    def case():
        from vt.world import World
        from mistral_lib import actions as ml
        ind = '    ' if level == 'defaults' else '      '
        block = '\n'.join(ind + x for x in _POLICY_LINES)
        text = EXPR_POLICIES.replace(
            '@@DEFAULTS@@', ('  task-defaults:\n' + block)
            if level == 'defaults' else '').replace(
            '@@TASK@@', block if level == 'task' else '')
        sig = 'C08.two-runs:%s' % level
        w = World([text])

        def timers_last(events):
            # the timeout timer (50-70 s) fires after everything else
            for e in events:
                if not (e.kind == 'job' and
                        'fail_task_if_incomplete' in e.label):
                    return e
            return None
        with w:
            vals = []
            for r in (1, 2):
                v = {'wb': choice('wb%d' % r, [1, 2]),
                     'wa': choice('wa%d' % r, [3, 4]),
                     'to': choice('to%d' % r, [50, 70]),
                     'pb': choice('pb%d' % r, [False, True])}
                vals.append(v)
                n0 = len(w.delivered)
                wid = w.start('wf', dict(v))
                w.run(chooser=timers_last,
                      result_of=lambda ev: ml.Result(data='ok'))
                if v['pb']:
                    reach('paused-run-%d' % r)
                    t = w.task('t', wid)
                    check(w.wf_ex(wid)['state'] == 'PAUSED' and t is not None
                          and not w.actions(t['id']),
                          'pause-before-ignored',
                          {'signature': sig + ':pause-before', 'run': r,
                           'values': vals, 'wf': w.wf_ex(wid)['state']})
                    w.call('resume_workflow', wid)
                    w.run(chooser=timers_last,
                          result_of=lambda ev: ml.Result(data='ok'))
                else:
                    check(not [c for c in w.cas_log
                               if c[0] == 'wf' and c[1] == wid
                               and c[3] == 'PAUSED'],
                          'paused-without-pause-before',
                          {'signature': sig + ':spurious-pause', 'run': r,
                           'values': vals})
                # now the timers fire (on a finished task: no effect)
                w.run(result_of=lambda ev: ml.Result(data='ok'))
                t = w.task('t', wid)
                info = {'run': r, 'values': vals,
                        'wf': w.wf_ex(wid)['state']}
                check(w.wf_ex(wid)['state'] == 'SUCCESS' and
                      t['state'] == 'SUCCESS',
                      'run-not-finished', dict(info,
                                               signature=sig + ':final'))
                jobs = [e for e in w.delivered[n0:] if e.kind == 'job']

                def delays(word):
                    return [e.payload.run_after for e in jobs
                            if word in e.label]
                # (a task released by the operator after pause-before is
                # started by the resume; whether wait-before still applies
                # then is not specified - only a wrong delay is an error)
                check(delays('_continue_task') == [v['wb']] or
                      (v['pb'] and delays('_continue_task') == []),
                      'wait-before-delay-wrong',
                      dict(info, signature=sig + ':wait-before',
                           got=delays('_continue_task')))
                check(delays('_complete_task') == [v['wa']],
                      'wait-after-delay-wrong',
                      dict(info, signature=sig + ':wait-after',
                           got=delays('_complete_task')))
                check(delays('fail_task_if_incomplete') == [v['to']],
                      'timeout-wrong',
                      dict(info, signature=sig + ':timeout',
                           got=delays('fail_task_if_incomplete')))
                reach('run-%d-done' % r)
    return case


@obligation(
    'C08.E', engine='symx+world(minidb)',
    functions=['mistral.engine.policies:RetryPolicy.after_task_complete',
               'mistral.engine.policies:WaitBeforePolicy.before_task_start',
               'mistral.engine.policies:WaitAfterPolicy.after_task_complete',
               'mistral.engine.policies:TimeoutPolicy.before_task_start',
               'mistral.engine.policies:FailOnPolicy.after_task_complete',
               'mistral.engine.policies:PauseBeforePolicy.before_task_start',
               'mistral.engine.policies:_continue_task',
               'mistral.engine.policies:_complete_task',
               'mistral.engine.policies:_fail_task_if_incomplete',
               'mistral.engine.policies:construct_policies_list',
               'mistral.engine.base:TaskPolicy.before_task_start',
               'mistral.engine.task_handler:continue_task',
               'mistral.engine.task_handler:complete_task',
               'mistral.engine.tasks:Task.complete',
               'mistral.engine.tasks:RegularTask._run_new',
               'mistral.engine.tasks:RegularTask._run_existing'],
    bounds={'quick': 'retry count in {0,1,2,3} and as an expression, plain / '
                     'continue-on / break-on (their values symbolic), every '
                     'attempt outcome symbolic; wait-before / wait-after; '
                     'timeout with the timer delivered before or after the '
                     'result (<= 1 out-of-order delivery); fail-on with a '
                     'symbolic value; pause-before; task-defaults vs '
                     'task-level retry; the same definition run twice in '
                     'one engine process with solver-chosen values of the '
                     'expression-valued wait-before / wait-after / timeout '
                     '/ pause-before (task level and task-defaults); a '
                     'postponed task whose action cannot be started',
            'thorough': '<= 2 out-of-order deliveries'},
    stubs=['minidb', 'QueueRPC', 'FakeScheduler (timers are events)',
           'FakeExecutor', 'post-commit queue inline',
           'expr_stub for policy expressions'],
    outside='real time (delays are the run_after values of the recorded '
            'jobs); retry of joins and with-items',
    timeout=(500, 2400))
def c08_e(ctx):
    """retry: <= count+1 attempts, stops at first success / continue-on false
    / break-on true, one delayed continuation per retry, final state and
    accepted result are the last attempt's; wait-before / wait-after
    postpone without losing anything; timeout fails only an incomplete
    task; fail-on turns SUCCESS into ERROR; pause-before pauses before the
    action starts; task-level policies override task-defaults"""
    boot()
    k = ctx.pick(1, 2)
    for count in (0, 1, 2, 3, '<% $.k %>'):
        yield Case('retry/%s' % count, _retry_case(count, '', k),
                   needed=['quiescent'] + (['retried', 'exhausted']
                                           if count in (2, 3) else []))
    yield Case('retry/continue-on', _retry_case(2, 'continue', k),
               needed=['quiescent', 'retried'])
    yield Case('retry/break-on', _retry_case(2, 'break', k),
               needed=['quiescent', 'retried'])
    for which in ('wait-before', 'wait-after'):
        yield Case(which, _wait_case(which, k),
                   needed=['quiescent', 'delayed'])
    yield Case('timeout', _timeout_case(max(k, 2)),
               needed=['quiescent', 'timed-out', 'completed-in-time'])
    yield Case('fail-on', _fail_on_case(0),
               needed=['quiescent', 'failed-by-policy'])
    yield Case('pause-before', _pause_before_case(0),
               needed=['paused-before', 'resumed'])
    for o in ('none', 'zero', 'one'):
        yield Case('defaults/%s' % o, _defaults_case(o, 0),
                   needed=['quiescent'])
    for which in ('wait-before', 'wait-after', 'timeout'):
        yield Case('%s/bad-input' % which, _wait_bad_input_case(which),
                   needed=['quiescent'])
    for level in ('task', 'defaults'):
        yield Case('two-runs/%s' % level, _two_runs_case(level),
                   needed=['run-1-done', 'run-2-done', 'paused-run-2'])
