"""C05 - a task sees exactly the data published by the tasks that causally
precede it."""
from vt import symx, shapes, scenario
from vt.kit import obligation, Case, boot
from vt.symx import (fresh_bool, check, reach, note, choice, assume)

GLOBAL_PUB = """
version: '2.0'
wf:
  input:
    - inp: I
  output:
    b: <% $.get(b, none) %>
    g: <% global(g) %>
    s: <% $.get(s, none) %>
    inp: <% $.inp %>
  tasks:
    t1:
      action: std.noop
      publish:
        b: branch_val
      on-complete:
        publish:
          global:
            g: global_val
          branch:
            s: state_pub
        next: t2
    t2:
      action: std.noop
      publish:
        seen_b: <% $.get(b, none) %>
        seen_g: <% global(g) %>
        seen_s: <% $.get(s, none) %>
"""

ON_ERROR_PUB = """
version: '2.0'
wf:
  output:
    v: <% $.get(v, none) %>
    e: <% $.get(e, none) %>
  tasks:
    t1:
      action: std.noop
      publish:
        v: ok_val
      publish-on-error:
        v: err_val
      on-error:
        publish:
          branch:
            e: routed_err
        next: t2
      on-success: t2
    t2:
      action: std.noop
"""


def _diamond_case(shape, preemptions, sym_ids, sym_order=False):
    def case():
        from vt.world import World
        from vt.explorer import Explorer
        sig = 'C05.E:%s' % shape
        text = shapes.DATA_SHAPES[shape]
        w = World([text], sym_ids=sym_ids, sym_upstream_order=sym_order)
        with w:
            ex = Explorer(w, sig, preemptions=preemptions)
            wid = w.start('wf')
            ex.check_invariants()
            ex.run()
            reach('quiescent')
            outs = ex.outcomes
            j = w.task('j', wid)
            info = {'trace': ex.trace[-25:], 'outcomes': dict(outs),
                    'ids': {t['name']: t['id'] for t in w.tasks(wid)}}

            def inf(s, **kw):
                d = dict(info)
                d.update(kw)
                d['signature'] = sig + ':' + s
                return d
            if j is None or j['state'] not in ('SUCCESS', 'ERROR') or \
                    not w.actions(j['id']):
                return
            reach('join-ran')
            ctx_ = j['in_context'] or {}
            if shape == 'data_flow':
                if outs.get('b') == 'SUCCESS':
                    check(ctx_.get('x') == 'from_b',
                          'join-sees-stale-value-of-x',
                          inf('stale-x', got=ctx_.get('x')))
                    check(ctx_.get('z') == {'k1': 'b1', 'k2': 'a2'},
                          'nested-variable-merged-wrongly',
                          inf('nested-z', got=ctx_.get('z')))
                    check(ctx_.get('cfg') == {'db': {'host': 'h1',
                                                     'port': 'p0'}},
                          'deep-variable-merged-wrongly',
                          inf('deep-cfg', got=ctx_.get('cfg')))
                want_y = 'from_c' if outs.get('c') == 'SUCCESS' \
                    else 'c_failed'
                check(ctx_.get('y') == want_y, 'join-sees-wrong-y',
                      inf('y', got=ctx_.get('y'), want=want_y))
                check(ctx_.get('inp') is None or ctx_.get('inp') == 'I',
                      'input-shadowed', inf('inp'))
                if j['state'] == 'SUCCESS':
                    check((j['published'] or {}).get('seen_inp') == 'I',
                          'workflow-input-not-visible',
                          inf('input', got=j['published']))
            elif shape == 'data_flow_chain':
                check(ctx_.get('v') == 'from_a2' and
                      ctx_.get('w') == 'from_c',
                      'join-sees-stale-values',
                      inf('stale', got=[ctx_.get('v'), ctx_.get('w')]))
                wf_ = w.wf_ex(wid)
                if wf_['state'] == 'SUCCESS':
                    check((wf_['output'] or {}).get('v') == 'from_a2',
                          'workflow-output-has-stale-value',
                          inf('stale-output', got=wf_['output']))
            elif shape == 'data_flow_jj':
                check(ctx_.get('v') == 'from_d', 'join-sees-stale-values',
                      inf('stale', got=ctx_.get('v')))
                wf_ = w.wf_ex(wid)
                if wf_['state'] == 'SUCCESS':
                    check((wf_['output'] or {}).get('v') == 'from_d',
                          'workflow-output-has-stale-value',
                          inf('stale-output', got=wf_['output']))
            else:
                check([ctx_.get('p'), ctx_.get('q'), ctx_.get('r')] ==
                      ['p_b', 'q_c', 'r_a'],
                      'join-sees-stale-values',
                      inf('stale', got=[ctx_.get('p'), ctx_.get('q'),
                                        ctx_.get('r')]))
            # the upstream tasks' stored contexts were not modified by the
            # merge: b still has the value it inherited / published itself
            b = w.task('b', wid)
            if b is not None and shape == 'data_flow':
                check((b['in_context'] or {}).get('x') == 'from_a',
                      'stored-inbound-context-modified',
                      inf('mutated-in-context',
                          got=(b['in_context'] or {}).get('x')))
                c = w.task('c', wid)
                check((c['in_context'] or {}).get('x') == 'from_a' and
                      'y' not in (c['in_context'] or {}),
                      'stored-inbound-context-modified',
                      inf('mutated-in-context-c', got=c['in_context']))
    return case


def _pub_case(text, name, preemptions=0):
    def case():
        from vt.world import World
        from vt.explorer import Explorer
        sig = 'C05.4:%s' % name
        w = World([text])
        with w:
            ex = Explorer(w, sig, preemptions=preemptions)
            wid = w.start('wf')
            ex.run()
            reach('quiescent')
            wf = w.wf_ex(wid)
            outs = ex.outcomes
            info = {'signature': sig, 'outcomes': dict(outs),
                    'output': wf['output'], 'state': wf['state']}

            def inf(s, **kw):
                d = dict(info)
                d.update(kw)
                d['signature'] = sig + ':' + s
                return d
            if name == 'global':
                t2 = w.task('t2', wid)
                if t2 is None or t2['state'] != 'SUCCESS':
                    return
                reach('t2-ran')
                pub = t2['published'] or {}
                if outs.get('t1') == 'SUCCESS':
                    check(pub.get('seen_b') == 'branch_val',
                          'task-level-publish-lost', inf('branch', got=pub))
                check(pub.get('seen_g') == 'global_val',
                      'transition-level-global-publish-lost',
                      inf('global', got=pub))
                check(pub.get('seen_s') == 'state_pub',
                      'transition-level-branch-publish-lost',
                      inf('transition-branch', got=pub))
                if wf['state'] == 'SUCCESS':
                    check(wf['output'].get('g') == 'global_val' and
                          wf['output'].get('inp') == 'I',
                          'workflow-output-misses-global-or-input',
                          inf('output'))
            else:
                t1 = w.task('t1', wid)
                pub = t1['published'] or {}
                if outs.get('t1') == 'SUCCESS':
                    reach('t1-ok')
                    check(pub.get('v') == 'ok_val' and 'e' not in pub,
                          'publish-on-success-wrong', inf('ok', got=pub))
                else:
                    reach('t1-failed')
                    check(pub.get('v') == 'err_val' and
                          pub.get('e') == 'routed_err',
                          'publish-on-error-wrong', inf('err', got=pub))
    return case


@obligation(
    'C05.E', engine='symx+world(minidb)',
    functions=['mistral.workflow.data_flow:evaluate_upstream_context',
               'mistral.workflow.data_flow:evaluate_task_outbound_context',
               'mistral.workflow.data_flow:publish_variables',
               'mistral.workflow.context_versioning:merge_context_by_version',
               'mistral.workflow.context_versioning:'
               'get_in_context_with_versions',
               'mistral.workflow.direct_workflow:'
               'DirectWorkflowController._get_upstream_task_executions',
               'mistral.engine.tasks:Task._update_inbound_context',
               'mistral.expressions:evaluate_recursively'],
    bounds={'quick': 'diamond (root publishes x, z nested, cfg 3 deep; one '
                     'branch republishes parts of them, the other publishes '
                     'y / publish-on-error), a 3-branch fan-in, a 3-way join '
                     'fed by a chain that re-publishes a variable born in a '
                     'branch, a join after a join; listing order of the '
                     'unordered upstream SELECT symbolic; outcomes '
                     'symbolic; completion order with <= 1 out-of-order '
                     'delivery; task id order (ORDER BY id of random uuids) '
                     'symbolic; default configuration',
            'thorough': '<= 2 out-of-order deliveries'},
    stubs=['minidb', 'QueueRPC', 'FakeScheduler', 'FakeExecutor',
           'post-commit queue inline', 'real YAQL'],
    outside='merge_strategy=merge, context versioning disabled, Jinja '
            '(C05.3 covers the lookup order for both syntaxes)',
    timeout=(500, 2400))
def c05_e(ctx):
    """at the join every variable has the value published by the latest
    task on a causal path (never the stale copy another branch inherited),
    nested values merge per leaf, workflow input stays visible, and the
    stored inbound contexts of the upstream tasks are unchanged"""
    boot()
    k = ctx.pick(1, 2)
    for shape in ('data_flow', 'data_flow_3'):
        yield Case(shape + '/order', _diamond_case(shape, k, False),
                   needed=['quiescent', 'join-ran'])
        yield Case(shape + '/ids', _diamond_case(shape, 0, True),
                   needed=['quiescent', 'join-ran'])
    for shape in ('data_flow', 'data_flow_3', 'data_flow_chain',
                  'data_flow_jj'):
        # the order in which the unordered upstream SELECT lists the rows
        yield Case(shape + '/upstream-order',
                   _diamond_case(shape, 0, False, sym_order=True),
                   needed=['quiescent', 'join-ran'])
        if shape.startswith('data_flow_') and shape != 'data_flow_3':
            yield Case(shape + '/order', _diamond_case(shape, k, False),
                       needed=['quiescent', 'join-ran'])


@obligation(
    'C05.4', engine='symx+world(minidb)',
    functions=['mistral.lang.v2.tasks:DirectWorkflowTaskSpec.get_publish',
               'mistral.lang.v2.tasks:TaskSpec.get_publish',
               'mistral.lang.v2.publish:PublishSpec.merge',
               'mistral.workflow.data_flow:publish_variables'],
    bounds='task-level publish combined with transition-level publish '
           '(branch and global parts) under on-complete / on-error; task '
           'outcome symbolic',
    stubs=['minidb', 'QueueRPC', 'FakeExecutor', 'real YAQL'])
def c05_4(ctx):
    """the variables published on a transition are the union of the
    task-level and the applicable transition-level publish (branch and
    global), for the state the task ended in"""
    boot()
    yield Case('global', _pub_case(GLOBAL_PUB, 'global'),
               needed=['quiescent', 't2-ran'])
    yield Case('on-error', _pub_case(ON_ERROR_PUB, 'on-error'),
               needed=['quiescent', 't1-ok', 't1-failed'])


@obligation(
    'C05.3', engine='symx',
    functions=['mistral.workflow.data_flow:ContextView.__getitem__',
               'mistral.workflow.data_flow:ContextView.get',
               'mistral.workflow.data_flow:ContextView.__contains__',
               'mistral.expressions:evaluate',
               'mistral.expressions.yaql_expression:YAQLEvaluator.evaluate',
               'mistral.expressions.jinja_expression:'
               'JinjaEvaluator.evaluate'],
    bounds='5 layers (task publish context, inbound context, environment, '
           'workflow context, input); presence of the key in each layer '
           'symbolic; YAQL and Jinja; real evaluators on concrete values',
    stubs=[])
def c05_3(ctx):
    """`<% $.k %>` / `{{ _.k }}` evaluates to the value of the first layer
    that has the key, in the documented order; layers are not modified"""
    boot()
    import copy
    from mistral import expressions as expr
    from mistral.workflow import data_flow

    def mk(syntax):
        def case():
            layers = []
            names = ['ctx', 'in_context', 'env', 'wf_context', 'input']
            for n in names:
                d = {'other_' + n: n}
                if fresh_bool('has_' + n):
                    d['k'] = 'from_' + n
                layers.append(d)
            snap = copy.deepcopy(layers)
            view = data_flow.ContextView(*layers)
            e = '<% $.get(k, "missing") %>' if syntax == 'yaql' else \
                '{{ _.get("k", "missing") }}'
            got = expr.evaluate(e, view)
            want = 'missing'
            for n, d in zip(names, layers):
                if 'k' in d:
                    want = 'from_' + n
                    break
            reach('evaluated')
            check(got == want, 'lookup-order-wrong',
                  {'signature': 'C05.3:%s:order' % syntax, 'got': got,
                   'want': want})
            check(layers == snap, 'evaluation-modified-a-context-layer',
                  {'signature': 'C05.3:%s:mutation' % syntax})
            e2 = '<% $.other_input %>' if syntax == 'yaql' else \
                '{{ _.other_input }}'
            check(expr.evaluate(e2, view) == 'input',
                  'fallback-to-input-broken',
                  {'signature': 'C05.3:%s:fallback' % syntax})
        return case
    yield Case('yaql', mk('yaql'), needed=['evaluated'])
    yield Case('jinja', mk('jinja'), needed=['evaluated'])


# ---------------------------------------------------------------------------
# C05.G  generated shapes with a causal reference
# ---------------------------------------------------------------------------
_GN = 'abcde'


def _gen_data_case(n, preemptions=0):
    """Every forward-route DAG over n tasks (route i -> j present or not, a
    task with >= 2 inbound routes is 'join: all'), every subset of tasks
    publishing the variable v, every listing order of the unordered upstream
    SELECT.  Oracle (causal reference): the value of v a task sees is the
    value of a MAXIMAL publisher among its causal ancestors - never a value
    that a later task on the same path has re-published - and v is absent
    iff no ancestor publishes it."""
    def case():
        from vt.world import World
        from mistral_lib import actions as ml
        edges = {}
        for j in range(1, n):
            for i in range(j):
                edges[(i, j)] = fresh_bool('e%d%d' % (i, j))
                edges[(i, j)] = bool(edges[(i, j)])
        pub = [bool(fresh_bool('pub%d' % i)) for i in range(n)]
        assume(any(pub))
        lines = ["version: '2.0'", 'wf:', '  output:',
                 '    v: <% $.get(v, none) %>', '  tasks:']
        for i in range(n):
            inbound = [k for k in range(i) if edges[(k, i)]]
            lines.append('    %s:' % _GN[i])
            lines.append('      action: std.noop')
            if len(inbound) >= 2:
                lines.append('      join: all')
            if pub[i]:
                lines.append('      publish:')
                lines.append('        v: from_%s' % _GN[i])
            tg = [_GN[j] for j in range(i + 1, n) if edges[(i, j)]]
            if tg:
                lines.append('      on-success: [%s]' % ', '.join(tg))
        text = '\n'.join(lines) + '\n'
        sig = 'C05.G:%d' % n
        # causal ancestors (every route is taken: all actions succeed)
        anc = {i: set() for i in range(n)}
        for j in range(n):
            for i in range(j):
                if edges[(i, j)]:
                    anc[j] |= {i} | anc[i]
        w = World([text], sym_upstream_order=True)
        with w:
            wid = w.start('wf')
            if preemptions:
                from vt.explorer import Explorer
                ex = Explorer(w, 'C05.G:%d' % n, preemptions=preemptions)
                ex.result_for = lambda ev: ml.Result(data='ok')
                ex.run()
            else:
                w.run(result_of=lambda ev: ml.Result(data='ok'))
            reach('ran')
            wf = w.wf_ex(wid)
            info = {'text': text, 'signature': sig}
            check(wf['state'] == 'SUCCESS', 'run-not-finished',
                  dict(info, signature=sig + ':final', state=wf['state']))
            for i in range(n):
                t = w.task(_GN[i], wid)
                if t is None:
                    continue
                P = [x for x in anc[i] if pub[x]]
                M = [x for x in P
                     if not any(x in anc[y] for y in P)]
                got = (t['in_context'] or {}).get('v')
                allowed = ['from_%s' % _GN[x] for x in M] or [None]
                if len(M) >= 1 and len(P) > len(M):
                    reach('republished-upstream')
                if len(anc[i]) >= 2 and 'join' in (t['spec'] or {}):
                    reach('join-seen')
                check(got in allowed,
                      'task-sees-stale-or-foreign-value',
                      dict(info, signature=sig + ':stale', task=_GN[i],
                           got=got, allowed=allowed))
            # the workflow output: value of a maximal publisher overall
            Pall = [x for x in range(n) if pub[x]]
            Mall = [x for x in Pall if not any(x in anc[y] for y in Pall)]
            check((wf['output'] or {}).get('v') in
                  ['from_%s' % _GN[x] for x in Mall],
                  'workflow-output-has-stale-value',
                  dict(info, signature=sig + ':output',
                       got=(wf['output'] or {}).get('v')))
    return case


@obligation(
    'C05.G', engine='symx+world(minidb)',
    functions=['mistral.workflow.data_flow:evaluate_upstream_context',
               'mistral.workflow.data_flow:evaluate_task_outbound_context',
               'mistral.workflow.data_flow:evaluate_workflow_output',
               'mistral.workflow.context_versioning:merge_context_by_version',
               'mistral.workflow.context_versioning:'
               'get_in_context_with_versions',
               'mistral.workflow.direct_workflow:DirectWorkflowController.'
               'evaluate_workflow_final_context',
               'mistral.engine.tasks:Task._update_inbound_context'],
    bounds={'quick': 'EVERY forward-route DAG over 4 tasks (each route '
                     'present or not, joins all), every subset of tasks '
                     'publishing v, every listing order of the unordered '
                     'upstream SELECT; all actions succeed; FIFO',
            'thorough': 'same 4-task shapes, additionally <= 1 '
                        'out-of-order delivery at any point'},
    stubs=['minidb', 'QueueRPC', 'FakeScheduler', 'FakeExecutor',
           'post-commit queue inline', 'real YAQL'],
    outside='failing tasks, partial joins, nested values (C05.E), more than '
            'one variable',
    timeout=(500, 3000))
def c05_g(ctx):
    """in every generated shape every task sees, for the published
    variable, the value of a maximal publisher among its causal ancestors
    (absent iff none publishes), and so does the workflow output"""
    boot()
    n = 4
    yield Case('%d-tasks' % n, _gen_data_case(n, ctx.pick(0, 1)),
               needed=['ran', 'republished-upstream', 'join-seen'],
               max_paths=5000000, shard_depth=ctx.pick(6, 9), procs=14)
