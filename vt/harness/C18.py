"""C18 - the expiration policy deletes only what it is configured to
delete."""
import datetime
import itertools

from vt import symx, minidb, env
from vt.kit import obligation, Case, boot
from vt.symx import (fresh_int, fresh_bool, fresh_time, fresh_enum, check,
                     reach, note, sym_and, sym_or, sym_not, implies, choice,
                     assume)

TERMINAL = ('SUCCESS', 'ERROR', 'CANCELLED')
ALL = ('IDLE', 'WAITING', 'RUNNING', 'DELAYED', 'PAUSED', 'SUCCESS',
       'CANCELLED', 'ERROR', 'SKIPPED')
IGNORED_SETS = ([], ['SUCCESS'], ['ERROR', 'CANCELLED'])


def _conf(older_than, mfe, batch, ignored):
    return {'execution_expiration_policy': {
        'older_than': older_than, 'max_finished_executions': mfe,
        'batch_size': batch, 'ignored_states': ignored,
        'evaluation_interval': 1}}


def _wf(db, models, wid, state, updated_at, task_execution_id=None,
        project='proj-a', root=None):
    return db.put(models.WorkflowExecution, id=wid, name='wf',
                  workflow_name='wf', state=state, updated_at=updated_at,
                  created_at=datetime.datetime(2000, 1, 1),
                  task_execution_id=task_execution_id, project_id=project,
                  root_execution_id=root, spec={}, params={}, context={},
                  input={}, scope='private')


def _eligible(state, ignored):
    return sym_or(*[state == s for s in TERMINAL if s not in ignored])


@obligation(
    'C18.1', engine='sqlir+symx',
    functions=['mistral.db.v2.sqlalchemy.api:get_expired_executions',
               'mistral.db.v2.sqlalchemy.api:get_superfluous_executions',
               'mistral.db.v2.sqlalchemy.api:'
               '_get_completed_root_executions_query'],
    bounds='expired: one row with symbolic state (9 values), updated_at, '
           'root / child, 3 ignored_states settings, symbolic expiration '
           'time, limit in {None, 0, 1}; superfluous: 3 rows with symbolic '
           'state / updated_at, max_finished_executions in 0..3, limit in '
           '{None, 1, 2}',
    stubs=['minidb'])
def c18_1(ctx):
    """expired candidates = finished, non-ignored roots older than the
    expiration time; superfluous = those ranked beyond max_finished by
    updated_at descending"""
    boot()
    from mistral.db.v2.sqlalchemy import api as sa_api, models

    def case_expired():
        db = minidb.MiniDB()
        ignored = choice('ignored', IGNORED_SETS)
        state = fresh_enum('state', ALL)
        upd = fresh_time('updated_at')
        exp = fresh_time('exp')
        is_child = bool(fresh_bool('is_child'))
        limit = choice('limit', [None, 0, 1])
        with minidb.installed(db), \
                env.conf_shim(_conf(1, 0, 0, ignored), sa_api):
            _wf(db, models, 'w1', state, upd,
                task_execution_id='t-parent' if is_child else None)
            rows = sa_api.get_expired_executions(exp, limit)
        want = sym_and(not is_child, _eligible(state, ignored), upd < exp)
        if len(rows) == 1:
            reach('expired')
            check(want, 'ineligible-execution-selected',
                  {'signature': 'C18.1:expired-ineligible'})
        else:
            reach('not-expired')
            check(sym_not(want), 'eligible-execution-missed',
                  {'signature': 'C18.1:expired-missed'})
    yield Case('expired/one-row', case_expired,
               needed=['expired', 'not-expired'])

    def case_superfluous():
        db = minidb.MiniDB()
        ignored = choice('ignored', IGNORED_SETS[:2])
        mfe = choice('mfe', [0, 1, 2, 3])
        limit = choice('limit', [None, 1, 2])
        rows_in = []
        with minidb.installed(db), \
                env.conf_shim(_conf(None, mfe, 0, ignored), sa_api):
            for i in range(3):
                st = fresh_enum('state%d' % i, ('RUNNING', 'SUCCESS',
                                                'ERROR'))
                upd = fresh_time('upd%d' % i)
                _wf(db, models, 'w%d' % i, st, upd)
                rows_in.append(('w%d' % i, st, upd))
            got = sa_api.get_superfluous_executions(mfe, limit)
        got_ids = [r.id for r in got]
        if not mfe:
            check(got_ids == [], 'mfe-0-must-select-nothing',
                  {'signature': 'C18.1:superfluous-mfe0'})
            return
        el = {i: _eligible(st, ignored) for i, st, u in rows_in}
        upd = {i: u for i, st, u in rows_in}
        n_el = sum(1 for i in el if bool(el[i]))   # forks: concrete now
        for i in got_ids:
            reach('superfluous')
            check(el[i], 'ineligible-selected',
                  {'signature': 'C18.1:superfluous-ineligible'})
            # at least mfe other eligible rows are at least as new
            newer = [j for j in el if j != i and bool(el[j])
                     and bool(upd[j] >= upd[i])]
            check(len(newer) >= mfe, 'selected-although-among-newest',
                  {'signature': 'C18.1:superfluous-too-new'})
        if limit is None:
            check(len(got_ids) == max(n_el - mfe, 0),
                  'wrong-number-of-superfluous',
                  {'signature': 'C18.1:superfluous-count'})
        else:
            check(len(got_ids) == min(max(n_el - mfe, 0), limit),
                  'limit-not-applied',
                  {'signature': 'C18.1:superfluous-limit'})
    yield Case('superfluous/3-rows', case_superfluous,
               needed=['superfluous'])


class _Fuel(BaseException):
    pass


def _c18_2_case(n_roots, settings):
    def case():
        from mistral.db.v2.sqlalchemy import api as sa_api, models
        from mistral.db.v2 import api as db_api
        from mistral.services import expiration_policy as ep
        older_than, mfe, batch, ignored = settings
        clock = env.VClock()
        db = minidb.MiniDB()
        roots = []
        txs = [0]
        real_tx = sa_api.transaction

        import contextlib

        @contextlib.contextmanager
        def counted_tx(*a, **k):
            txs[0] += 1
            if txs[0] > 4 * (n_roots + 2) + 4:
                raise _Fuel()
            with real_tx(*a, **k):
                yield
        with minidb.installed(db), clock.installed(), \
                env.conf_shim(_conf(older_than, mfe, batch, ignored),
                              sa_api, ep), \
                env.patched(sa_api, 'transaction', counted_tx):
            for i in range(n_roots):
                st = fresh_enum('state%d' % i, ALL[:8])
                upd = fresh_time('upd%d' % i)
                _wf(db, models, 'r%d' % i, st, upd,
                    project='proj-%d' % (i % 2))
                roots.append(('r%d' % i, st, upd))
            # r0 has a task with an action and a finished sub-workflow that
            # itself has a task
            db.put(models.TaskExecution, id='r0-t', name='t',
                   workflow_execution_id='r0', state='SUCCESS', spec={},
                   project_id='proj-0')
            db.put(models.ActionExecution, id='r0-a', name='a',
                   task_execution_id='r0-t', state='SUCCESS',
                   project_id='proj-0')
            _wf(db, models, 'r0-sub', 'SUCCESS',
                datetime.datetime(1999, 1, 1), task_execution_id='r0-t',
                project='proj-0', root='r0')
            db.put(models.TaskExecution, id='r0-sub-t', name='t2',
                   workflow_execution_id='r0-sub', state='SUCCESS', spec={},
                   project_id='proj-0')
            k0 = len(clock.readings)
            try:
                ep.run_execution_expiration_policy(None, None)
                terminated = True
            except _Fuel:
                terminated = False
        sig = 'C18.2:'
        check(terminated, 'evaluation-does-not-terminate',
              {'signature': sig + 'non-termination'})
        if not terminated:
            return
        now = clock.readings[k0] if len(clock.readings) > k0 else None
        left = {r['id'] for r in db.rows(models.WorkflowExecution)}
        tasks = {r['id'] for r in db.rows(models.TaskExecution)}
        actions = {r['id'] for r in db.rows(models.ActionExecution)}
        el = {i: bool(_eligible(st, ignored)) for i, st, u in roots}
        upd = {i: u for i, st, u in roots}
        deleted = [i for i, _, _ in roots if i not in left]
        kept = [i for i, _, _ in roots if i in left]
        if deleted:
            reach('deleted')
        if kept:
            reach('kept')
        exp = None
        if older_than is not None and now is not None:
            exp = now - datetime.timedelta(minutes=older_than)
        for d in deleted:
            check(el[d], 'unfinished-or-ignored-execution-deleted',
                  {'signature': sig + 'ineligible-deleted'})
            by_age = (upd[d] < exp) if exp is not None else False
            others = [j for j in el if j != d and el[j]
                      and bool(upd[j] >= upd[d])]
            by_count = bool(mfe) and len(others) >= mfe
            check(sym_or(by_age, by_count), 'deleted-without-reason',
                  {'signature': sig + 'deleted-without-reason'})
        for k in kept:
            if not el[k]:
                continue
            if exp is not None:
                check(sym_not(upd[k] < exp), 'expired-execution-kept',
                      {'signature': sig + 'expired-kept'})
            for d in deleted:
                by_age = (upd[d] < exp) if exp is not None else False
                if bool(by_age):
                    continue
                check(sym_not(upd[d] > upd[k]),
                      'newer-deleted-while-older-kept',
                      {'signature': sig + 'newer-deleted'})
        if mfe:
            check(len([k for k in kept if el[k]]) <= mfe,
                  'more-finished-executions-kept-than-configured',
                  {'signature': sig + 'too-many-kept'})
        # trees stay complete: the sub-tree of r0 lives and dies with r0
        sub = ('r0-sub' in left, 'r0-t' in tasks, 'r0-a' in actions,
               'r0-sub-t' in tasks)
        want = 'r0' in left
        check(all(x == want for x in sub), 'execution-tree-torn',
              {'signature': sig + 'tree-torn'})
    return case


SETTINGS_Q = [
    (1, 0, 0, []), (None, 1, 0, []), (1, 1, 0, []), (60, 2, 1, ['ERROR']),
    (0, 0, 0, []), (None, 2, 2, []), (None, 1, 5, ['SUCCESS']),
]
# (older_than unset, mfe 0) is excluded: ExecutionExpirationPolicy.__init__
# does not register the task for it (C18.3)
SETTINGS_T = [(ot, mfe, b, ig)
              for ot in (None, 0, 1, 60) for mfe in (0, 1, 2)
              for b in (0, 1, 2, 5) for ig in ([], ['SUCCESS'])
              if not (ot is None and mfe == 0)]


@obligation(
    'C18.2', engine='symx+minidb',
    functions=['mistral.services.expiration_policy:'
               'run_execution_expiration_policy',
               'mistral.services.expiration_policy:_delete_executions',
               'mistral.services.expiration_policy:_delete_until_depleted',
               'mistral.services.expiration_policy:_delete',
               'mistral.db.v2.sqlalchemy.api:delete_workflow_execution',
               'mistral.db.v2.sqlalchemy.api:get_expired_executions',
               'mistral.db.v2.sqlalchemy.api:get_superfluous_executions'],
    bounds={'quick': '3 root executions (state symbolic over 8, updated_at '
                     'symbolic, 2 projects), one of them with task + action '
                     '+ sub-workflow + its task; 8 settings of (older_than, '
                     'max_finished_executions, batch_size, ignored_states) '
                     'including unset older_than',
            'thorough': '4 roots; all 88 reachable settings of older_than in {unset, '
                        '0, 1, 60} x mfe in {0,1,2} x batch in {0,1,2,5} x '
                        'ignored in {[], [SUCCESS]}'},
    stubs=['minidb (ON DELETE CASCADE from the real foreign keys)', 'VClock',
           'conf_shim'],
    outside='MySQL cascade depth fallback (delete_workflow_execution_recurse)',
    timeout=(200, 1500))
def c18_2(ctx):
    """one evaluation: terminates without an exception, deletes exactly the
    finished non-ignored roots that are too old or beyond the newest N,
    together with their whole sub-tree, never a newer one while an older
    eligible one is kept"""
    boot()
    n = ctx.pick(3, 4)
    for st in (SETTINGS_Q if ctx.quick else SETTINGS_T):
        name = 'older_than=%s,mfe=%s,batch=%s,ignored=%s' % st
        yield Case(name, _c18_2_case(n, st),
                   needed=['kept'] + (['deleted'] if (st[0] is not None
                                                      or st[1]) else []),
                   shard_depth=ctx.pick(0, 8), procs=14)


@obligation(
    'C18.3', engine='symx',
    functions=['mistral.services.expiration_policy:'
               'ExecutionExpirationPolicy.__init__'],
    bounds='evaluation_interval, older_than, max_finished_executions each '
           'unset or a symbolic integer',
    stubs=['conf_shim', 'oslo periodic_task registration -> recorder'])
def c18_3(ctx):
    """the task is registered iff the interval is set and older_than >= 1 or
    max_finished_executions >= 1"""
    boot()
    from mistral.services import expiration_policy as ep
    from oslo_config import cfg

    def case():
        def opt(name):
            return None if fresh_bool(name + '_unset') else fresh_int(name)
        interval, ot, mfe = opt('interval'), opt('older_than'), opt('mfe')
        if interval is not None:
            assume(interval >= 0)
        reg = []

        class PT(object):
            @staticmethod
            def periodic_task(**kw):
                reg.append(kw)
                return lambda f: f
        with env.conf_shim(_conf(ot, mfe, 0, []), ep), \
                env.patched(ep, 'periodic_task', PT):
            ep.CONF._over['execution_expiration_policy'][
                'evaluation_interval'] = interval
            obj = ep.ExecutionExpirationPolicy.__new__(
                ep.ExecutionExpirationPolicy)
            obj.add_periodic_task = lambda t: reg.append('added')
            # the oslo base __init__ only stores the conf
            import oslo_service.periodic_task as opt_
            with env.patched(opt_.PeriodicTasks, '__init__',
                             lambda self, conf: None):
                ep.ExecutionExpirationPolicy.__init__(obj, cfg.CONF)

        def ge1(v):
            return False if v is None else v >= 1
        want = sym_and(False if interval is None else interval != 0,
                       sym_or(ge1(ot), ge1(mfe)))
        if 'added' in reg:
            reach('enabled')
            check(want, 'enabled-although-unconfigured',
                  {'signature': 'C18.3:enabled'})
        else:
            reach('disabled')
            check(sym_not(want), 'disabled-although-configured',
                  {'signature': 'C18.3:disabled'})
    yield Case('enabling-condition', case, needed=['enabled', 'disabled'])
