"""C19 - outbound HTTP from workflows cannot reach denied networks."""
import contextlib
import ipaddress
import socket

import z3

from vt import symx
from vt.kit import obligation, Case, Result, boot
from vt.symx import (fresh_bv, fresh_bool, fresh_enum, choice, check, reach,
                     sym_and, sym_or, sym_not, implies, note)

DEFAULT = ['127.0.0.0/8', '::1/128', '169.254.0.0/16', 'fe80::/10']
CONFIGS = {
    'default': DEFAULT,
    'rfc1918': DEFAULT + ['10.0.0.0/8', '172.16.0.0/12', '192.168.0.0/16'],
    'ula+invalid': DEFAULT + ['fc00::/7', 'not-a-cidr', '300.0.0.0/8'],
    'empty': [],
    'host-bits': ['10.1.2.3/8', '2001:db8::1/32'],
}


def _nets(cidrs):
    """Independent reading of the configured deny-list (the oracle's)."""
    out = []
    for c in cidrs:
        try:
            n = ipaddress.ip_network(c, strict=False)
        except ValueError:
            continue
        out.append((n.version, int(n.network_address), int(n.netmask)))
    return out


_REAL_V4 = ipaddress.IPv4Address


def _mk_addr(fam, val):
    """A real IPv4Address / IPv6Address whose integer value is ``val``
    (symbolic or concrete), built without parsing text."""
    if fam == 4:
        a = _V4.__new__(_V4)
    else:
        a = _V6.__new__(_V6)
        a._scope_id = None
    a._ip = val
    return a


class _V4(ipaddress.IPv4Address):
    """real IPv4Address; only the text rendering (used in the error message)
    is neutralised while the value is symbolic"""
    __slots__ = ()

    def __init__(self, address):
        # ipaddress.IPv6Address.ipv4_mapped builds IPv4Address(ip & 2**32-1)
        if isinstance(address, symx.SymBV):
            if address.w != 32:
                address = symx.SymBV(z3.Extract(31, 0, address.t), 32)
            self._ip = address
            return
        _REAL_V4.__init__(self, address)

    def __str__(self):
        if isinstance(self._ip, int):
            return _REAL_V4.__str__(self)
        return '<symbolic v4>'


class _V6(ipaddress.IPv6Address):
    __slots__ = ()

    def __str__(self):
        if isinstance(self._ip, int):
            return ipaddress.IPv6Address.__str__(self)
        return '<symbolic v6>'


def _oracle_denied(fam, val, nets):
    """Does (fam, val) denote an address in one of ``nets``?  An IPv4-mapped
    IPv6 address (::ffff:a.b.c.d) denotes its embedded IPv4 address."""
    sym = not isinstance(val, int)
    terms = []
    for ver, net, mask in nets:
        if ver == fam:
            terms.append((val & mask) == net)
        elif fam == 6 and ver == 4:
            if sym:
                hi = z3.Extract(127, 32, val.t) == z3.BitVecVal(0xffff, 96)
                lo = z3.Extract(31, 0, val.t)
                terms.append(symx.SymBool(z3.And(
                    hi, (lo & z3.BitVecVal(mask, 32))
                    == z3.BitVecVal(net, 32))))
            else:
                terms.append((val >> 32) == 0xffff
                             and ((val & 0xffffffff) & mask) == net)
    return sym_or(*terms)


@contextlib.contextmanager
def _patched(cidrs, allowed_hosts, addrs, gaierror=False):
    from oslo_config import cfg
    from mistral.utils import egress
    cfg.CONF.set_override('denied_cidrs', cidrs, group='action_std_http')
    cfg.CONF.set_override('allowed_hosts', allowed_hosts,
                          group='action_std_http')
    real_gai = socket.getaddrinfo
    real_ipa = ipaddress.ip_address

    def fake_gai(host, port, *a, **k):
        if gaierror:
            raise socket.gaierror(-2, 'Name or service not known')
        return [(socket.AF_INET if f == 4 else socket.AF_INET6,
                 socket.SOCK_STREAM, 6, '', ((f, v), port))
                for f, v in addrs]

    def fake_ipa(x):
        if isinstance(x, tuple):
            return _mk_addr(*x)
        return real_ipa(x)

    egress.socket.getaddrinfo = fake_gai
    egress.ipaddress.ip_address = fake_ipa
    ipaddress.IPv4Address = _V4
    try:
        yield egress
    finally:
        egress.socket.getaddrinfo = real_gai
        egress.ipaddress.ip_address = real_ipa
        ipaddress.IPv4Address = _REAL_V4
        cfg.CONF.clear_override('denied_cidrs', group='action_std_http')
        cfg.CONF.clear_override('allowed_hosts', group='action_std_http')


def _render(addrs_spec):
    def r(model):
        out = []
        for i, fam in addrs_spec:
            v = model.get('addr%d' % i, 0)
            out.append(str(_mk_addr(fam, int(v))))
        return out
    return r


def _strong_replay_factory(cfgname, fams):
    """Real validate_url on the model's addresses: with the real numeric
    resolver for a single address; for several addresses the resolver
    answer is the list of address *texts* (only getaddrinfo is replaced,
    ipaddress parses the text for real)."""
    def rp(model):
        from oslo_config import cfg
        from mistral.utils import egress
        from mistral import exceptions as exc
        cidrs = CONFIGS[cfgname]
        nets = _nets(cidrs)
        vals = [int(model.get('addr%d' % i, 0)) for i in range(len(fams))]
        denied = [bool(_oracle_denied(f, v, nets))
                  for f, v in zip(fams, vals)]
        if not any(denied):
            return False, 'no denied address in the model'
        cfg.CONF.set_override('denied_cidrs', cidrs, group='action_std_http')
        real_gai = socket.getaddrinfo
        try:
            if len(fams) == 1:
                a = _mk_addr(fams[0], vals[0])
                url = ('http://%s/x' % a) if fams[0] == 4 else \
                    ('http://[%s]:8080/x' % a)
            else:
                texts = [str(_mk_addr(f, v)) for f, v in zip(fams, vals)]

                def gai(host, port, *a, **k):
                    return [(socket.AF_INET if f == 4 else socket.AF_INET6,
                             socket.SOCK_STREAM, 6, '', (t, port))
                            for f, t in zip(fams, texts)]
                socket.getaddrinfo = gai
                url = 'http://multi.example/x'
            try:
                egress.validate_url(url)
                return True, 'real validate_url accepted %s -> %s' % (
                    url, [str(_mk_addr(f, v)) for f, v in zip(fams, vals)])
            except exc.UrlNotAllowedException:
                return False, 'real validate_url refused it'
        finally:
            socket.getaddrinfo = real_gai
            cfg.CONF.clear_override('denied_cidrs', group='action_std_http')
    return rp


@obligation(
    'C19.1', engine='symx',
    functions=['mistral.utils.egress:validate_url',
               'mistral.utils.egress:_denied_networks',
               'ipaddress:_BaseNetwork.__contains__'],
    bounds={'quick': 'k<=2 resolved addresses, each family in {4,6} with a '
                     'full-width (32/128-bit) symbolic value; 5 deny-list '
                     'configurations',
            'thorough': 'k<=3 resolved addresses, full width; 5 deny-list '
                        'configurations'},
    stubs=['resolver_stub (socket.getaddrinfo returns k arbitrary addresses; '
           'ipaddress.ip_address builds the real address object around the '
           'symbolic integer)'],
    outside='DNS answers changing between check and connect; getaddrinfo '
            'itself; more than 3 addresses',
    timeout=(120, 600))
def c19_1(ctx):
    """accepted => no resolved address denotes a denied network; refused =>
    some address does (no over-blocking); gaierror fails open as documented"""
    boot()
    from mistral import exceptions as exc
    kmax = ctx.pick(2, 3)
    for cfgname, cidrs in CONFIGS.items():
        nets = _nets(cidrs)
        import itertools
        for k in range(1, kmax + 1):
            for fams in itertools.product((4, 6), repeat=k):
                def case(cidrs=cidrs, nets=nets, fams=fams):
                    addrs = [(f, fresh_bv('addr%d' % i, 32 if f == 4 else 128))
                             for i, f in enumerate(fams)]
                    with _patched(cidrs, [], addrs) as egress:
                        try:
                            egress.validate_url('http://host.example:8080/p')
                            accepted = True
                        except exc.UrlNotAllowedException:
                            accepted = False
                    denied = sym_or(*[_oracle_denied(f, v, nets)
                                      for f, v in addrs])
                    fam_tag = ''.join(str(f) for f in fams)
                    if accepted:
                        reach('accepted')
                        # which address slips through decides the signature
                        for i, (f, v) in enumerate(addrs):
                            d = _oracle_denied(f, v, nets)
                            check(sym_not(d), 'accepted-denied-address',
                                  {'signature': 'C19.1:accepted-denied:v%d%s'
                                   % (f, ':mapped' if f == 6 else ''),
                                   'render': _render(list(enumerate(fams))),
                                   'cidrs': cidrs})
                    else:
                        reach('refused')
                        check(denied, 'refused-allowed-address',
                              {'signature': 'C19.1:overblock:%s' % fam_tag,
                               'render': _render(list(enumerate(fams)))})
                yield Case('%s/%s' % (cfgname, ''.join(map(str, fams))), case,
                           needed=['accepted'] + (
                               ['refused'] if nets else []),
                           replay=_strong_replay_factory(cfgname, fams))
    # unresolvable host: documented fail-open, no address check at all

    def case_gai():
        with _patched(DEFAULT, [], [], gaierror=True) as egress:
            egress.validate_url('http://nx.example/')
        reach('gai-fail-open')
    yield Case('gaierror', case_gai, needed=['gai-fail-open'])


SCHEMES = ('http', 'https', '', 'ftp', 'file', 'gopher', 'HTTP', 'httpx',
           'ws', 'other')
HOSTS = ('', None, 'a.example', 'b.example', 'evil.example', 'A.EXAMPLE')


class _Parsed(object):
    def __init__(self, scheme, hostname, port):
        self.scheme = scheme
        self.hostname = hostname
        self.port = port


@obligation(
    'C19.2', engine='symx',
    functions=['mistral.utils.egress:validate_url'],
    bounds='scheme symbolic over a catalogue of 10 (incl. a fresh "other"), '
           'host symbolic over 6 (incl. empty / None), allow-list in '
           '{empty, [a], [a,b]}, one resolved address (symbolic)',
    stubs=['urlsplit_stub (parse.urlsplit returns an object with symbolic '
           'scheme/hostname)', 'resolver_stub'],
    outside='urllib.parse.urlsplit itself (validated concretely in C19.v)')
def c19_2(ctx):
    """accepted => scheme in {http, https} and host non-empty and
    (allow-list empty or host listed)"""
    boot()
    from mistral import exceptions as exc
    from mistral.utils import egress
    for allow in ([], ['a.example'], ['a.example', 'b.example']):
        def case(allow=allow):
            scheme = fresh_enum('scheme', SCHEMES)
            host = fresh_enum('host', HOSTS)
            addr = fresh_bv('addr0', 32)
            real = egress.parse.urlsplit
            # local shim object so that urllib itself is not patched globally

            class P(object):
                @staticmethod
                def urlsplit(url):
                    return _Parsed(scheme, host, 80)
            saved = egress.parse
            egress.parse = P
            try:
                with _patched(DEFAULT, allow, [(4, addr)]):
                    try:
                        egress.validate_url('ignored')
                        accepted = True
                    except exc.UrlNotAllowedException:
                        accepted = False
            finally:
                egress.parse = saved
            ok_scheme = sym_or(scheme == 'http', scheme == 'https')
            ok_host = sym_and(host != '', host != None)  # noqa
            ok_allow = True if not allow else sym_or(
                *[host == h for h in allow])
            good = sym_and(ok_scheme, ok_host, ok_allow)
            if accepted:
                reach('accepted')
                check(good, 'accepted-bad-scheme-or-host',
                      {'signature': 'C19.2:accepted:allow=%d' % len(allow)})
            else:
                reach('refused')
                denied = _oracle_denied(4, addr, _nets(DEFAULT))
                check(sym_or(sym_not(good), denied), 'refused-good-url',
                      {'signature': 'C19.2:overblock:allow=%d' % len(allow)})
        yield Case('allow=%s' % ','.join(allow), case,
                   needed=['accepted', 'refused'])


REQUIRED = ['127.0.0.0/8', '::1/128', '169.254.0.0/16', 'fe80::/10',
            '169.254.169.254/32']


@obligation(
    'C19.3', engine='symx',
    functions=['mistral.utils.egress:validate_url',
               'mistral.utils.egress:_denied_networks',
               'mistral.config:action_std_http_opts'],
    bounds='the shipped default of [action_std_http] denied_cidrs; one '
           'address, full width, constrained to lie in a required network '
           '(loopback, link-local, metadata service), also as IPv4-mapped',
    stubs=['resolver_stub'])
def c19_3(ctx):
    """with the default configuration every loopback / link-local / metadata
    address (native or IPv4-mapped) is refused"""
    boot()
    from oslo_config import cfg
    from mistral import exceptions as exc
    default = list(cfg.CONF.action_std_http.denied_cidrs)
    req = _nets(REQUIRED)
    for fam in (4, 6):
        def case(fam=fam):
            v = fresh_bv('addr0', 32 if fam == 4 else 128)
            symx.assume(_oracle_denied(fam, v, req))
            reach('in-required-net')
            with _patched(default, [], [(fam, v)]) as egress:
                try:
                    egress.validate_url('https://h.example/')
                    accepted = True
                except exc.UrlNotAllowedException:
                    accepted = False
            check(not accepted, 'default-denylist-hole',
                  {'signature': 'C19.3:default-hole:v%d' % fam,
                   'render': _render([(0, fam)])})
        yield Case('default/v%d' % fam, case, needed=['in-required-net'],
                   replay=_strong_replay_factory('default', (fam,)))


@obligation(
    'C19.4', engine='symx',
    functions=['mistral.actions.std_actions:HTTPAction.run',
               'mistral.notifiers.publishers.webhook:WebhookPublisher.publish'],
    bounds='verdict of validate_url symbolic (raises / returns); both call '
           'sites; 2 urls',
    stubs=['egress.validate_url replaced by a recording stub with a symbolic '
           'verdict', 'requests.request / requests.post recording stubs'])
def c19_4(ctx):
    """the HTTP client is invoked only after validate_url accepted the very
    url that is requested"""
    boot()
    from mistral import exceptions as exc
    from mistral.actions import std_actions
    from mistral.notifiers.publishers import webhook

    class Resp(object):
        status_code = 200
        headers = {}
        content = b'{}'
        text = '{}'
        url = 'u'
        history = []
        encoding = 'utf-8'
        reason = 'OK'
        cookies = {}

        class elapsed(object):
            @staticmethod
            def total_seconds():
                return 0

        def json(self):
            return {}

    def mk(site):
        def case():
            raises = fresh_bool('validate_raises')
            url = choice('url', ['http://a.example/x', 'https://b.example/y'])
            log = []

            def fake_validate(u):
                log.append(('validate', u))
                if raises:
                    raise exc.UrlNotAllowedException('blocked')

            def fake_request(*a, **k):
                u = a[1] if len(a) > 1 else (a[0] if a else k.get('url'))
                log.append(('request', u))
                return Resp()

            def fake_post(u, **k):
                log.append(('request', u))
                return Resp()
            mod = std_actions if site == 'http' else webhook
            sv, sr = mod.egress.validate_url, mod.requests
            mod.egress.validate_url = fake_validate

            class R(object):
                request = staticmethod(fake_request)
                post = staticmethod(fake_post)
            mod.requests = R
            try:
                try:
                    if site == 'http':
                        class C(object):
                            class execution(object):
                                action_execution_id = 'x'
                        std_actions.HTTPAction(url=url).run(C())
                    else:
                        webhook.WebhookPublisher().publish(
                            None, 'ex', {}, 'EV', 0, url=url)
                except exc.UrlNotAllowedException:
                    reach('refused')
            finally:
                mod.egress.validate_url = sv
                mod.requests = sr
            reqs = [i for i, e in enumerate(log) if e[0] == 'request']
            if reqs:
                reach('requested')
                first = reqs[0]
                vals = [e[1] for e in log[:first] if e[0] == 'validate']
                check(sym_not(raises), 'request-after-refusal',
                      {'signature': 'C19.4:%s:request-after-refusal' % site})
                check(log[first][1] in vals, 'request-not-validated',
                      {'signature': 'C19.4:%s:unvalidated-url' % site})
            else:
                check(raises, 'no-request-although-accepted',
                      {'signature': 'C19.4:%s:no-request' % site})
        return case
    for site in ('http', 'webhook'):
        yield Case(site, mk(site), needed=['requested', 'refused'])


# ---------------------------------------------------------------------------
# C19.v  validation of the resolver stub against the real resolver: boundary
# addresses chosen by z3 for every network, rendered in many textual forms,
# pushed through the real validate_url with the real numeric getaddrinfo.
# Sampling - labelled as validation of the environment model; a disagreement
# with the oracle on a *denied* address that the real function accepts is a
# genuine counterexample found concretely and reported like one.
# ---------------------------------------------------------------------------
def _forms(fam, v):
    a = _mk_addr(fam, v)
    out = []
    if fam == 4:
        b = [(v >> s) & 255 for s in (24, 16, 8, 0)]
        out += ['%d.%d.%d.%d' % tuple(b), str(v), hex(v),
                '0%o.0%o.0%o.0%o' % tuple(b),
                '0x%x.0x%x.0x%x.0x%x' % tuple(b),
                '%d.%d' % (b[0], v & 0xffffff),
                '%d.%d.%d' % (b[0], b[1], v & 0xffff),
                '[::ffff:%d.%d.%d.%d]' % tuple(b),
                '[::FFFF:%x:%x]' % (v >> 16, v & 0xffff),
                '[0:0:0:0:0:ffff:%x:%x]' % (v >> 16, v & 0xffff)]
    else:
        out += ['[%s]' % a, '[%s]' % a.exploded, '[%s]' % str(a).upper()]
    return out


@obligation(
    'C19.v', engine='z3-boundary+differential',
    functions=['mistral.utils.egress:validate_url'],
    bounds='for each network of each configuration: lo-1, lo, hi, hi+1 '
           '(solver-chosen boundary values) x up to 10 textual host forms x '
           '{plain, userinfo, port, trailing dot, upper-case scheme}',
    stubs=[],
    outside='hosts that need DNS (offline sandbox): only numeric hosts')
def c19_v(ctx):
    """real validate_url + real getaddrinfo agree with the oracle on solver
    chosen boundary addresses in every textual form"""
    boot()
    from oslo_config import cfg
    from mistral.utils import egress
    from mistral import exceptions as exc
    res = Result()
    runs = 0
    for cfgname in ('default', 'rfc1918'):
        cidrs = CONFIGS[cfgname]
        nets = _nets(cidrs)
        cfg.CONF.set_override('denied_cidrs', cidrs, group='action_std_http')
        try:
            for ver, net, mask in nets:
                w = 32 if ver == 4 else 128
                x = z3.BitVec('x', w)
                inside = (x & z3.BitVecVal(mask, w)) == z3.BitVecVal(net, w)
                pts = set()
                for goal in ('min', 'max'):
                    o = z3.Optimize()
                    o.add(inside)
                    (o.minimize if goal == 'min' else o.maximize)(
                        z3.BV2Int(x))
                    assert str(o.check()) == 'sat'
                    res.queries += 1
                    b = o.model().eval(x).as_long()
                    pts.update({b, b - 1, b + 1})
                for v in sorted(p for p in pts if 0 <= p < (1 << w)):
                    expect_denied = bool(_oracle_denied(ver, v, nets))
                    for host in _forms(ver, v):
                        for tmpl in ('http://%s/', 'https://u:p@%s/x',
                                     'http://%s:8080/', 'HTTP://%s/',
                                     'http://%s./'):
                            if tmpl.endswith('./') and host.startswith('['):
                                continue
                            url = tmpl % host
                            try:
                                addrs = socket.getaddrinfo(
                                    egress.parse.urlsplit(url).hostname,
                                    None)
                            except (socket.gaierror, ValueError,
                                    UnicodeError):
                                continue
                            # what the resolver really denotes
                            want = False
                            for ai in addrs:
                                ip = ipaddress.ip_address(ai[4][0])
                                want = want or bool(_oracle_denied(
                                    ip.version, int(ip), nets))
                            try:
                                egress.validate_url(url)
                                got_denied = False
                            except exc.UrlNotAllowedException:
                                got_denied = True
                            runs += 1
                            if want and not got_denied:
                                mapped = 'ffff' in host.lower()
                                res.violations.append({
                                    'label': 'real-accepts-denied',
                                    'case': cfgname,
                                    'signature':
                                        'C19.v:accepted-denied:%s'
                                        % ('mapped' if mapped else 'native'),
                                    'model': {'url': url},
                                    'info': {'rendered': url},
                                    'reproduced': True})
                            if got_denied and not want and \
                                    urlscheme_ok(url):
                                res.violations.append({
                                    'label': 'real-refuses-allowed',
                                    'case': cfgname,
                                    'signature': 'C19.v:overblock',
                                    'model': {'url': url},
                                    'info': {'rendered': url},
                                    'reproduced': True})
                    res.cases += 1
        finally:
            cfg.CONF.clear_override('denied_cidrs', group='action_std_http')
    # keep one violation per signature
    seen, uniq = set(), []
    for v in res.violations:
        if v['signature'] not in seen:
            seen.add(v['signature'])
            uniq.append(v)
    res.violations = uniq
    res.replays = runs
    res.extra = {'validation_runs': runs, 'direct_queries': res.queries}
    res.samples = [{'urls_checked': runs}]
    res.witnesses_needed = ['ran']
    if runs > 100:
        res.witnesses_found = ['ran']
    return res


def urlscheme_ok(url):
    return url.lower().startswith(('http://', 'https://'))
