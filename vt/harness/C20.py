"""C20 - lost executors and stuck tasks are detected and the run moves on
exactly once."""
import datetime

from vt import symx, minidb, env, shapes
from vt.kit import obligation, Case, boot
from vt.symx import (fresh_int, fresh_bool, fresh_time, fresh_enum, check,
                     reach, note, choice, assume, sym_and, sym_or, sym_not,
                     implies)

ALL = ('IDLE', 'WAITING', 'RUNNING', 'DELAYED', 'PAUSED', 'SUCCESS',
       'CANCELLED', 'ERROR', 'SKIPPED')


def _hb_conf(interval, max_missed, first=3600, batch=0):
    return {'action_heartbeat': {'check_interval': interval,
                                 'max_missed_heartbeats': max_missed,
                                 'first_heartbeat_timeout': first,
                                 'batch_size': batch}}


@obligation(
    'C20.1', engine='sqlir+symx',
    functions=['mistral.db.v2.sqlalchemy.api:'
               'get_running_expired_sync_action_executions',
               'mistral.db.v2.sqlalchemy.api:'
               'update_action_execution_heartbeat',
               'mistral.db.v2.sqlalchemy.models:ActionExecution',
               'mistral.services.action_heartbeat_checker:'
               'handle_expired_actions'],
    bounds='one action row: state symbolic over 9, is_sync in {NULL, false, '
           'true}, created at a symbolic time with the model\'s own '
           'last_heartbeat default, 0..1 heartbeats at symbolic times; '
           'checker pass at a symbolic time; check_interval, '
           'max_missed_heartbeats, first_heartbeat_timeout symbolic >= 1',
    stubs=['minidb', 'VClock', 'conf_shim', 'dt_shim',
           'action_handler.on_action_complete -> recorder'])
def c20_1(ctx):
    """an action is expired iff it is RUNNING, synchronous and its last sign
    of life (creation + first-heartbeat grace, or last heartbeat) is older
    than max_missed * interval; fresh, asynchronous, finished never"""
    boot()
    from mistral.db.v2.sqlalchemy import api as sa_api, models
    from mistral.services import action_heartbeat_checker as hc
    from mistral.engine import action_handler

    def case():
        clock = env.VClock()
        db = minidb.MiniDB()
        interval = fresh_int('interval', 1, None)
        max_missed = fresh_int('max_missed', 1, None)
        first = fresh_int('first_timeout', 1, None)
        state = fresh_enum('state', ALL)
        sync = choice('is_sync', [None, False, True])
        beat = bool(fresh_bool('heartbeat_received'))
        expired = []
        conf = _hb_conf(interval, max_missed, first)
        with minidb.installed(db), clock.installed(), \
                env.conf_shim(conf, hc, models), env.dt_shim(hc, models), \
                env.auth_ctx('proj-a', True), \
                env.patched(action_handler, 'on_action_complete',
                            lambda a, r: expired.append((a.id, r))):
            db.put(models.WorkflowExecution, id='w', name='wf',
                   state='RUNNING', spec={}, project_id='proj-a')
            db.put(models.TaskExecution, id='t', name='t',
                   workflow_execution_id='w', state='RUNNING', spec={},
                   project_id='proj-a')
            # created through the real model default of last_heartbeat
            rec = db.put(models.ActionExecution, id='a', name='std.noop',
                         task_execution_id='t', state=state, is_sync=sync,
                         project_id='proj-a')
            # the model's default: creation reading + first-heartbeat grace
            last = rec['last_heartbeat']
            check(sym_or(*[last == r + symx.seconds(first)
                           for r in clock.readings]),
                  'first-heartbeat-grace-not-applied',
                  {'signature': 'C20.1:grace'})
            if beat:
                sa_api.update_action_execution_heartbeat('a')
                last = db.get(models.ActionExecution, 'a')['last_heartbeat']
            k0 = len(clock.readings)
            hc.handle_expired_actions()
        # the pass reads the clock first of all, for exp_date
        now = clock.readings[k0]
        horizon = symx.seconds(max_missed * interval)
        want = sym_and(state == 'RUNNING', sync is True,
                       last < now - horizon)
        if expired:
            reach('expired')
            check(want, 'live-or-async-or-finished-action-expired',
                  {'signature': 'C20.1:false-expiry'})
            check(expired[0][1].is_error() and 'Heartbeat' in
                  str(expired[0][1].error), 'wrong-result-kind',
                  {'signature': 'C20.1:result'})
        else:
            reach('not-expired')
            check(sym_not(want), 'silent-action-not-expired',
                  {'signature': 'C20.1:missed-expiry'})
    yield Case('one-action', case, needed=['expired', 'not-expired'])


WF2 = """
version: '2.0'
wf:
  tasks:
    a:
      action: std.noop
      on-error: handler
    b:
      action: std.noop
    handler:
      action: std.noop
"""


def _c20_2_case(broken):
    def case():
        from vt.world import World, ConcreteClock
        from mistral_lib import actions as ml
        from mistral.services import action_heartbeat_checker as hc
        from mistral.db.v2.sqlalchemy import models
        from mistral import context as auth_ctx
        # batch_size bounds one checker pass; with broken (unprocessable)
        # actions around, the live ones must still be reached within a
        # few passes whatever the batch size
        batch = choice('batch_size', [10, 1, 2]) if broken else 10
        w = World([WF2], is_admin=False,
                  conf={('action_heartbeat', 'check_interval'): 10,
                        ('action_heartbeat', 'max_missed_heartbeats'): 3,
                        ('action_heartbeat', 'first_heartbeat_timeout'): 60,
                        ('action_heartbeat', 'batch_size'): batch})
        with w:
            wid = w.start('wf')
            # run until both actions are handed to executors, which go
            # silent
            w.run(stop_when=lambda x: len(x.pending('action')) == 2
                  and len(x.events) == 2)
            held = list(w.events)
            for e in held:
                w.take(e)
            if broken:
                # an orphan: expired action whose task is gone
                for k in range(batch if batch < 10 else 1):
                    w.db.put(models.ActionExecution,
                             id='orphan' if k == 0 else 'orphan%d' % k,
                             name='std.noop',
                             task_execution_id='missing-task',
                             state='RUNNING', is_sync=True,
                             project_id='proj-a',
                             last_heartbeat=datetime.datetime(2019, 1, 1))
            late = choice('clock', ['fresh', 'expired'])
            w.clock.advance(20 if late == 'fresh' else 4000)
            # the checker runs under its own administrative context
            old = auth_ctx.ctx()
            auth_ctx.set_ctx(auth_ctx.MistralContext(
                user_id=None, project_id=None, auth_token=None,
                is_admin=True))
            try:
                # (one pass per live action plus one: enough for any batch
                # size >= 1 unless the broken ones starve the others)
                for _ in range(3):
                    hc.handle_expired_actions()
                err = None
            except Exception as e:
                err = e
            finally:
                auth_ctx.set_ctx(old)
            sig = 'C20.2:%s' % ('broken' if broken else 'plain')
            check(err is None, 'checker-pass-raised',
                  {'signature': sig + ':raised', 'error': repr(err)[:200]})
            w.run()
            acts = [a for a in w.rows('ActionExecution')
                    if not a['id'].startswith('orphan') and
                    a['task_execution_id'] in
                    [t['id'] for t in w.tasks(wid)
                     if t['name'] in ('a', 'b')]]
            info = {'signature': sig, 'summary': w.summary(),
                    'actions': [(a['id'], a['state']) for a in acts]}
            if late == 'fresh':
                reach('fresh')
                check(all(a['state'] == 'RUNNING' for a in acts),
                      'fresh-action-expired',
                      dict(info, signature=sig + ':fresh-expired'))
                return
            reach('expired')
            check(all(a['state'] == 'ERROR' and a['accepted'] and
                      'Heartbeat' in str((a['output'] or {}).get('result'))
                      for a in acts), 'expired-action-not-failed',
                  dict(info, signature=sig + ':not-failed'))
            ta, tb = w.task('a', wid), w.task('b', wid)
            check(ta['state'] == 'ERROR' and tb['state'] == 'ERROR' and
                  w.task('handler', wid) is not None,
                  'normal-error-handling-did-not-follow',
                  dict(info, signature=sig + ':handling'))
            check(w.wf_ex(wid)['state'] == 'ERROR',
                  'workflow-state-wrong', dict(info, signature=sig + ':wf'))
            # the genuine results arrive late: nothing changes
            before = w.summary()
            n_tasks = len(w.rows('TaskExecution'))
            for e in held:
                w.post(e)
            w.run(result_of=lambda ev: ml.Result(data='late'))
            reach('late-results')
            check(w.summary() == before and
                  len(w.rows('TaskExecution')) == n_tasks,
                  'late-result-acted-a-second-time',
                  dict(info, signature=sig + ':late', after=w.summary()))
            check(all(a['state'] == 'ERROR' for a in w.rows(
                'ActionExecution') if a['id'] in [x['id'] for x in acts]),
                'late-result-overwrote-expiry',
                dict(info, signature=sig + ':overwrite'))
    return case


def _c20_3_case(preemptions):
    """heartbeat expiry racing the genuine result in two engine processes"""
    def case():
        from vt.world import World
        from vt import actors as A
        from mistral_lib import actions as ml
        from mistral.services import action_heartbeat_checker as hc
        from mistral import context as auth_ctx
        w = World([shapes.CHAIN3], multi_process=True,
                  conf={('action_heartbeat', 'check_interval'): 10,
                        ('action_heartbeat', 'max_missed_heartbeats'): 3,
                        ('action_heartbeat', 'first_heartbeat_timeout'): 60})
        with w:
            wid = w.start('wf')
            w.run(stop_when=lambda x: len(x.pending('action')) == 1
                  and len(x.events) == 1)
            ev = w.events[0]
            w.take(ev)
            w.clock.advance(4000)
            acts = A.Actors(max_steps=600, preemptions=preemptions)
            A.attach(w.db, acts)
            ctx0 = auth_ctx.ctx()
            res = {}

            def genuine():
                auth_ctx.set_ctx(ctx0)
                w.call('on_action_complete', ev.payload['id'],
                       ml.Result(data='genuine'))

            def checker():
                auth_ctx.set_ctx(auth_ctx.MistralContext(
                    user_id=None, project_id=None, auth_token=None,
                    is_admin=True))
                try:
                    hc.handle_expired_actions()
                except Exception as e:
                    res['checker_error'] = e
            acts.spawn('G', genuine)
            acts.spawn('H', checker)
            acts.run()
            w.db.on_op = None
            w.db.on_block = None
            note('schedule', acts.schedule_str())
            w.run()
            reach('raced')
            if acts.used_preemptions:
                reach('interleaved')
            sig = 'C20.3:'
            a = [x for x in w.rows('ActionExecution')
                 if x['id'] == ev.payload['id']][0]
            t = w.task('a', wid)
            info = {'action': (a['state'], a['output']), 'task': t['state'],
                    'summary': w.summary(),
                    'errors': [repr(e)[:120] for e in w.errors]}
            # exactly one of the two results is the accepted one, and the
            # task followed that one
            genuine_won = a['state'] == 'SUCCESS'
            check(a['accepted'] and a['state'] in ('SUCCESS', 'ERROR'),
                  'no-result-accepted', dict(info, signature=sig + 'none'))
            check(t['state'] == a['state'],
                  'task-and-action-disagree-after-race',
                  dict(info, signature=sig + 'disagree'))
            nxt = w.task('b', wid)
            check((nxt is not None) == (t['state'] == 'SUCCESS'),
                  'routing-does-not-match-task-state',
                  dict(info, signature=sig + 'routing'))
            names = [x['name'] for x in w.tasks(wid)]
            check(len(names) == len(set(names)), 'task-continued-twice',
                  dict(info, signature=sig + 'twice'))
    return case


@obligation(
    'C20.2', engine='symx+world(minidb)',
    functions=['mistral.services.action_heartbeat_checker:'
               'handle_expired_actions',
               'mistral.engine.action_handler:on_action_complete',
               'mistral.engine.actions:RegularAction.complete',
               'mistral.engine.task_handler:schedule_on_action_complete'],
    bounds='two running synchronous actions whose executors go silent, '
           'optionally batch_size (10 / 1 / 2, solver choice) older expired '
           'actions whose task no longer exists; three checker passes; '
           'checker pass before / after the expiry horizon (symbolic); the '
           'genuine results delivered afterwards',
    stubs=['minidb', 'QueueRPC', 'FakeScheduler', 'FakeExecutor',
           'ConcreteClock'])
def c20_2(ctx):
    """silent actions are failed with the heartbeat error, their tasks and
    workflow follow normal error handling, a broken action does not stop the
    batch, fresh actions are untouched, and late genuine results change
    nothing"""
    boot()
    for broken in (False, True):
        yield Case('broken' if broken else 'plain', _c20_2_case(broken),
                   needed=['fresh', 'expired', 'late-results'])


@obligation(
    'C20.3', engine='symx-actors+world(minidb)',
    functions=['mistral.services.action_heartbeat_checker:'
               'handle_expired_actions',
               'mistral.engine.default_engine:DefaultEngine.on_action_complete',
               'mistral.engine.actions:RegularAction.complete',
               'mistral.engine.tasks:Task.complete',
               'mistral.engine.tasks:Task.set_state'],
    bounds={'quick': 'one expired action; the checker pass and the genuine '
                     'result run in two engine processes whose DB '
                     'statements interleave with <= 2 context switches',
            'thorough': '<= 3 context switches'},
    stubs=['minidb (READ COMMITTED overlay, row locks)', 'QueueRPC',
           'FakeScheduler', 'FakeExecutor'],
    timeout=(400, 2400))
def c20_3(ctx):
    """whichever of expiry and genuine result wins, it wins consistently:
    one accepted result, task state = action state, routing follows it, and
    the task continues once"""
    boot()
    yield Case('expiry-vs-result', _c20_3_case(ctx.pick(2, 3)),
               needed=['raced', 'interleaved'], shard_depth=8, procs=14)


@obligation(
    'C20.4', engine='symx+minidb',
    functions=['mistral.engine.workflow_handler:_check_and_fix_integrity'],
    bounds='one RUNNING task with 1..2 child actions (states symbolic over '
           '{RUNNING, SUCCESS, ERROR}); task and children update times '
           'symbolic, clock symbolic; execution_integrity_check_delay in '
           '{-1, 0, 20}; workflow state in {RUNNING, SUCCESS}',
    stubs=['minidb', 'VClock', 'FakeScheduler recorder',
           'task_handler.schedule_on_action_complete -> recorder'])
def c20_4(ctx):
    """a task left RUNNING is re-triggered iff all its children are finished
    and both the task's and the newest child's last update are older than
    the delay; the check reschedules itself while the workflow is unfinished
    and is off for a negative delay"""
    boot()
    from mistral.engine import workflow_handler as wh
    from mistral.engine import task_handler
    from mistral.db.v2.sqlalchemy import models
    from mistral.scheduler import base as sched_base
    from mistral.engine import post_tx_queue
    from oslo_utils import timeutils

    def case():
        clock = env.VClock()
        db = minidb.MiniDB()
        delay = choice('delay', [-1, 0, 20])
        wf_state = choice('wf_state', ['RUNNING', 'SUCCESS'])
        n = choice('children', [1, 2])
        t_upd = fresh_time('task_updated')
        kids = []
        fired, scheduled = [], []

        class Sched(object):
            def schedule(self, job):
                scheduled.append(job)

        def delta_seconds(before, after):
            return (after - before).total_seconds()
        from oslo_config import cfg
        cfg.CONF.set_override('execution_integrity_check_delay', delay,
                              group='engine')
        try:
            with minidb.installed(db), clock.installed(), \
                    env.auth_ctx('proj-a'), \
                    env.patched(sched_base, '_SCHEDULER', Sched()), \
                    env.patched(timeutils, 'delta_seconds', delta_seconds), \
                    env.patched(task_handler, 'schedule_on_action_complete',
                                lambda a: fired.append(a.id)):
                db.put(models.WorkflowExecution, id='w', name='wf',
                       state=wf_state, spec={}, project_id='proj-a')
                db.put(models.TaskExecution, id='t', name='t',
                       workflow_execution_id='w', state='RUNNING',
                       spec={'action': 'std.noop'}, project_id='proj-a',
                       updated_at=t_upd,
                       created_at=datetime.datetime(2000, 1, 1))
                for i in range(n):
                    st = fresh_enum('child%d' % i, ('RUNNING', 'SUCCESS',
                                                    'ERROR'))
                    u = fresh_time('child%d_updated' % i)
                    db.put(models.ActionExecution, id='a%d' % i,
                           name='std.noop', task_execution_id='t', state=st,
                           project_id='proj-a', updated_at=u,
                           created_at=datetime.datetime(2000, 1, 1),
                           last_heartbeat=datetime.datetime(2000, 1, 1))
                    kids.append((st, u))
                k0 = len(clock.readings)
                wh._check_and_fix_integrity('w')
        finally:
            cfg.CONF.clear_override('execution_integrity_check_delay',
                                    group='engine')
        sig = 'C20.4:'
        if delay < 0:
            reach('disabled')
            check(not fired and not scheduled, 'negative-delay-not-disabled',
                  {'signature': sig + 'disabled'})
            return
        if wf_state == 'SUCCESS':
            reach('finished-wf')
            check(not fired and not scheduled,
                  'finished-workflow-touched', {'signature': sig + 'finished'})
            return
        check(len(scheduled) == 1, 'check-not-rescheduled',
              {'signature': sig + 'reschedule', 'n': len(scheduled)})
        reads = clock.readings[k0:]
        all_done = sym_and(*[sym_or(st == 'SUCCESS', st == 'ERROR')
                             for st, u in kids])
        if fired:
            reach('re-triggered')
            check(all_done, 're-triggered-with-unfinished-children',
                  {'signature': sig + 'unfinished'})
            # both ages were judged against some clock reading of the pass
            d = datetime.timedelta(seconds=delay)
            check(sym_or(*[t_upd + d <= r for r in reads]),
                  're-triggered-although-task-updated-recently',
                  {'signature': sig + 'task-age'})
            newest = kids[0][1]
            for st, u in kids[1:]:
                newest_is_u = bool(u > newest)
                newest = u if newest_is_u else newest
            check(sym_or(*[newest + d < r for r in reads]),
                  're-triggered-although-child-finished-recently',
                  {'signature': sig + 'child-age'})
        else:
            reach('left-alone')
            d = datetime.timedelta(seconds=delay)
            newest = kids[0][1]
            for st, u in kids[1:]:
                newest = u if bool(u > newest) else newest
            last = reads[-1]
            first = reads[0]
            old_enough = sym_and(all_done, t_upd + d <= first,
                                 newest + d < first)
            check(sym_not(old_enough), 'stuck-task-not-re-triggered',
                  {'signature': sig + 'missed'})
    yield Case('integrity-check', case,
               needed=['disabled', 'finished-wf', 're-triggered',
                       'left-alone'])


@obligation(
    'C20.5', engine='symx',
    functions=['mistral.services.action_heartbeat_checker:start',
               'mistral.services.action_heartbeat_sender:start'],
    bounds='check_interval and max_missed_heartbeats symbolic >= 0',
    stubs=['conf_shim', 'threading.Timer / Thread -> recorder'])
def c20_5(ctx):
    """checker and sender are enabled iff both interval and max missed
    heartbeats are non-zero"""
    boot()
    from mistral.services import action_heartbeat_checker as hc
    from mistral.services import action_heartbeat_sender as hs

    def case():
        interval = fresh_int('interval', 0, None)
        mm = fresh_int('max_missed', 0, None)
        started = []

        class T(object):
            class Timer(object):
                def __init__(self, wait, fn):
                    started.append(('checker', wait))

                def start(self):
                    pass

            class Thread(object):
                def __init__(self, target=None, **k):
                    started.append(('sender', None))

                def start(self):
                    pass
        with env.conf_shim(_hb_conf(interval, mm), hc, hs), \
                env.patched(hc, 'threading', T), \
                env.patched(hs, 'threading', T):
            hc.start()
            hs.start()
            hc.stop()
            hs.stop()
        want = sym_and(interval != 0, mm != 0)
        kinds = sorted(k for k, _ in started)
        if kinds:
            reach('enabled')
            check(want, 'enabled-although-disabled-by-config',
                  {'signature': 'C20.5:enabled'})
            check(kinds == ['checker', 'sender'], 'only-one-side-enabled',
                  {'signature': 'C20.5:half'})
        else:
            reach('disabled')
            check(sym_not(want), 'disabled-although-configured',
                  {'signature': 'C20.5:disabled'})
    yield Case('enabling', case, needed=['enabled', 'disabled'])
