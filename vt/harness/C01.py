"""C01 - every workflow run finishes with the outcome its definition
prescribes."""
from vt import symx, minidb, env
from vt.kit import obligation, Case, boot
from vt.symx import (fresh_int, fresh_bool, fresh_enum, check, reach, note,
                     sym_and, sym_or, sym_not, implies, choice, assume)
from vt import shapes

ALL = ('IDLE', 'WAITING', 'RUNNING', 'DELAYED', 'PAUSED', 'SUCCESS',
       'CANCELLED', 'ERROR', 'SKIPPED')
COMPLETED = ('SUCCESS', 'ERROR', 'CANCELLED', 'SKIPPED')


import functools


@functools.lru_cache(maxsize=None)
def parse(text):
    """real parser + validation, once per text (about 1 s)"""
    from mistral.lang import parser as spec_parser
    from vt import env
    env.fast_schema_check()
    if text not in _PARSED:
        _PARSED[text] = spec_parser.get_workflow_list_spec_from_yaml(
            text).get_workflows()[0]
    return _PARSED[text]


_PARSED = {}


def completed(state):
    return sym_or(*[state == s for s in COMPLETED])


class _WfEx(object):
    def __init__(self, wid):
        self.id = wid


# ---------------------------------------------------------------------------
# reference semantics of a join's logical state (independent of the code)
# ---------------------------------------------------------------------------
def ref_join_state(spec, join_name, execs):
    """execs: name -> None | (completed: bool, routed: set of names).
    Returns 'RUNNING' | 'ERROR' | 'WAITING'."""
    tasks = {t.get_name(): t for t in spec.get_tasks()}

    def inbound(n):
        return [t.get_name() for t in spec.find_inbound_task_specs(tasks[n])]

    # least fixpoint: can a not-yet-existing task still be started?
    can = {n: False for n in tasks}
    changed = True
    while changed:
        changed = False
        for n in tasks:
            if can[n] or execs.get(n) is not None:
                continue
            ins = inbound(n)
            ok = not ins
            for p in ins:
                e = execs.get(p)
                if e is None:
                    ok = ok or can[p]
                else:
                    ok = ok or (not e[0]) or (n in e[1])
            if ok:
                can[n] = True
                changed = True
    induced = []
    for p in inbound(join_name):
        e = execs.get(p)
        if e is None:
            induced.append('WAITING' if can[p] else 'ERROR')
        elif not e[0]:
            induced.append('WAITING')
        elif join_name in e[1]:
            induced.append('RUNNING')
        else:
            induced.append('ERROR')
    join = tasks[join_name].get_join()
    total = len(induced)
    run = induced.count('RUNNING')
    err = induced.count('ERROR')
    if join == 'all':
        if run == total:
            return 'RUNNING'
        return 'ERROR' if err else 'WAITING'
    need = 1 if join == 'one' else int(join)
    if run >= need:
        return 'RUNNING'
    if err > total - need:
        return 'ERROR'
    return 'WAITING'


def _c01_2_case(text, join_name, sym_tasks=None):
    def case():
        from mistral.db.v2.sqlalchemy import models
        from mistral.workflow import direct_workflow
        import sys
        spec = parse(text)
        db = minidb.MiniDB()
        # only the ancestors of the join matter for its logical state
        anc, todo = set(), [join_name]
        while todo:
            n = todo.pop()
            for p_ in spec.find_inbound_task_specs(spec.get_tasks()[n]):
                if p_.get_name() not in anc and p_.get_name() != join_name:
                    anc.add(p_.get_name())
                    todo.append(p_.get_name())
        names = [t.get_name() for t in spec.get_tasks()
                 if t.get_name() in anc]
        execs = {}
        with minidb.installed(db), env.auth_ctx('proj-a'):
            db.put(models.WorkflowExecution, id='wf-1', name='wf',
                   state='RUNNING', spec={}, project_id='proj-a')
            for n in names:
                if sym_tasks is not None and n not in sym_tasks:
                    # outside the symbolic window: finished and routed
                    # everywhere (keeps deep chains tractable)
                    outs = sorted(spec.find_outbound_task_names(n))
                    db.put(models.TaskExecution, id='t-' + n, name=n,
                           workflow_execution_id='wf-1', state='SUCCESS',
                           next_tasks=[[o, 'on-success'] for o in outs],
                           project_id='proj-a', spec={})
                    execs[n] = (True, set(outs))
                    continue
                if not fresh_bool('exists_' + n):
                    execs[n] = None
                    continue
                state = fresh_enum('state_' + n, ALL)
                done = bool(completed(state))
                routed = set()
                if done:
                    for o in sorted(spec.find_outbound_task_names(n)):
                        if fresh_bool('routed_%s_%s' % (n, o)):
                            routed.add(o)
                db.put(models.TaskExecution, id='t-' + n, name=n,
                       workflow_execution_id='wf-1', state=state,
                       next_tasks=[[o, 'on-success'] for o in sorted(routed)]
                       if done else None,
                       project_id='proj-a', spec={})
                execs[n] = (done, routed)
            ctrl = direct_workflow.DirectWorkflowController(_WfEx('wf-1'),
                                                            spec)
            old = sys.getrecursionlimit()
            sys.setrecursionlimit(250)
            try:
                ls = ctrl._get_join_logical_state(spec.get_tasks()[join_name])
                got = ls.state
            except RecursionError:
                got = 'RecursionError'
            except Exception as e:
                # deep in the recursion the overflow surfaces inside z3's
                # ctypes layer
                if 'RecursionError' not in repr(e):
                    raise
                got = 'RecursionError'
            finally:
                sys.setrecursionlimit(old)
        want = ref_join_state(spec, join_name, execs)
        reach('join-' + want)
        sig = 'C01.2:%s' % ('cycle' if got == 'RecursionError' else 'state')
        check(got == want, 'join-logical-state-differs',
              {'signature': sig, 'got': got, 'want': want,
               'execs': {k: (None if v is None else [v[0], sorted(v[1])])
                         for k, v in execs.items()}})
        if got == 'RUNNING':
            # triggered_by names exactly the inbound tasks that routed here
            ids = sorted(t['task_id'] for t in ls.triggered_by)
            exp = sorted('t-' + n for n, e in execs.items()
                         if e is not None and e[0] and join_name in e[1]
                         and n in [s.get_name() for s in
                                   spec.find_inbound_task_specs(
                                       spec.get_tasks()[join_name])])
            check(ids == exp, 'triggered-by-wrong',
                  {'signature': 'C01.2:triggered_by'})
    return case


@obligation(
    'C01.2', engine='symx+minidb',
    functions=['mistral.workflow.direct_workflow:'
               'DirectWorkflowController._get_join_logical_state',
               'mistral.workflow.direct_workflow:'
               'DirectWorkflowController._get_induced_join_state',
               'mistral.workflow.direct_workflow:'
               'DirectWorkflowController._possible_route',
               'mistral.workflow.direct_workflow:'
               'DirectWorkflowController._find_all_parent_task_names',
               'mistral.workflow.direct_workflow:'
               'DirectWorkflowController._prepare_task_executions_cache',
               'mistral.lang.v2.workflows:'
               'DirectWorkflowSpec.find_inbound_task_specs'],
    bounds='7 graph shapes parsed by the real parser (fork/join all, 2-of-3 '
           'via on-success/on-error/on-complete, join one, nested joins, a '
           'chain deeper than MAX_SEARCH_DEPTH, conditional route, a cycle '
           'upstream of the join); per upstream task: exists? (symbolic), '
           'state symbolic over all 9, routed-to for each outbound edge '
           '(symbolic); recursion fuel 250 frames (exceeding it is reported)',
    stubs=['minidb'],
    outside='graphs outside the catalogue; more than one execution per '
            'task name (TODO acknowledged in the code)',
    timeout=(200, 900))
def c01_2(ctx):
    """the join's logical state equals the reference: RUNNING iff enough
    inbound tasks completed and routed to it, ERROR iff that can no longer
    happen (least fixpoint of 'can still be started'), WAITING otherwise;
    the computation terminates"""
    boot()
    for name, (text, joins) in shapes.JOIN_SHAPES.items():
        for j in joins:
            sym = None
            if name == 'deep_chain':
                sym = {'t1', 't2', 't6', 't7', 'x'} if ctx.quick else None
            if name == 'join_partial_deep' and ctx.quick:
                sym = {'s', 'x', 'y', 'a'}
            strong = None
            if name == 'cycle_upstream':
                def strong(model):
                    from vt import kit
                    return kit.run_strong_test('test_c01_cycle_join.py',
                                               timeout=45)
            yield Case('%s/%s' % (name, j), _c01_2_case(text, j, sym),
                       needed=['join-RUNNING', 'join-WAITING'],
                       replay=strong,
                       shard_depth=ctx.pick(0, 8) if name == 'deep_chain'
                       else 0, procs=14)


# ---------------------------------------------------------------------------
# C01.E  bounded runs of the real engine against the reference semantics
# ---------------------------------------------------------------------------
# guards fixed per shape: the loop-back guard of the cycle shape is false (a
# task on a taken cycle has several executions - outside the reference
# semantics and the code's acknowledged single-join-instance TODO)
FIXED_GUARDS = {'cycle_upstream': {'<% $.gy %>': False}}


def run_case(shape, text, preemptions, oid='C01.E', extra=None):
    def case():
        from vt.world import World
        from vt.explorer import Explorer
        from vt import refsem
        from mistral import expressions
        from mistral import exceptions as exc
        spec = parse(text)
        holder = {}
        real_eval = expressions.evaluate

        def stub(e, c):
            return holder['ex'].expr_stub(real_eval)(e, c)
        w = World([text], expr_stub=stub)
        with w:
            ex = Explorer(w, '%s:%s' % (oid, shape), preemptions=preemptions,
                          guards=dict(FIXED_GUARDS.get(shape, {})))
            holder['ex'] = ex
            wid = w.start('wf')
            ex.check_invariants()
            ex.run()
            wf_state, tasks, dup = ex.summary(wid)
        sig = '%s:%s:' % (oid, shape)
        info = {'trace': ex.trace[-30:], 'outcomes': dict(ex.outcomes),
                'guards': dict(ex.guards)}
        ref_wf, ref_tasks, _ = refsem.reference(spec, ex.outcome, ex.guard)

        def inf(s):
            d = dict(info)
            d['signature'] = sig + s + (
                ':after-' + ex.taint if ex.taint else '')
            d['engine'] = [wf_state, tasks]
            d['reference'] = [ref_wf, ref_tasks]
            return d
        reach('quiescent')
        reach('final-' + str(ref_wf))
        check(wf_state in ('SUCCESS', 'ERROR', 'CANCELLED'),
              'run-not-finished-at-quiescence', inf('stuck'))
        check(all(s in ('SUCCESS', 'ERROR', 'CANCELLED', 'SKIPPED')
                  for s in tasks.values()),
              'task-left-unfinished-at-quiescence', inf('task-stuck'))
        check(wf_state == ref_wf, 'final-state-differs-from-language',
              inf('final-state'))
        check(tasks == ref_tasks, 'tasks-differ-from-language',
              inf('tasks'))
        check(not dup, 'task-ran-twice', inf('task-twice'))
        bad = [(m, repr(e)[:200]) for m, e in w.errors
               if not isinstance(e, exc.MistralException)]
        check(not bad, 'engine-entry-point-raised-undeclared-error',
              dict(inf('undeclared-error'), errors=bad))
        check(not w.swallowed, 'post-commit-operation-failed',
              dict(inf('post-commit-error'),
                   errors=[repr(x)[:200] for x in w.swallowed]))
        if extra:
            extra(w, ex, wid, inf)
    return case


@obligation(
    'C01.E', engine='symx+world(minidb)',
    functions=['mistral.engine.default_engine:DefaultEngine.start_workflow',
               'mistral.engine.default_engine:DefaultEngine.start_task',
               'mistral.engine.default_engine:DefaultEngine.on_action_complete',
               'mistral.engine.task_handler:run_task',
               'mistral.engine.task_handler:_on_action_complete',
               'mistral.engine.task_handler:_refresh_task_state',
               'mistral.engine.task_handler:_check_affected_tasks',
               'mistral.engine.tasks:Task.complete',
               'mistral.engine.tasks:Task.set_state',
               'mistral.engine.tasks:Task.defer',
               'mistral.engine.tasks:RegularTask._run_new',
               'mistral.engine.dispatcher:dispatch_workflow_commands',
               'mistral.engine.dispatcher:_rearrange_commands',
               'mistral.engine.workflow_handler:check_and_complete',
               'mistral.engine.workflows:Workflow.check_and_complete',
               'mistral.engine.workflows:Workflow.set_state',
               'mistral.engine.post_tx_queue:run',
               'mistral.workflow.direct_workflow:'
               'DirectWorkflowController._find_next_tasks',
               'mistral.workflow.direct_workflow:'
               'DirectWorkflowController._get_join_logical_state',
               'mistral.workflow.data_flow:evaluate_upstream_context'],
    bounds={'quick': '9 shapes (<= 6 tasks: forks, joins all / N / one, '
                     'nested joins, on-error / on-complete routes, guards, '
                     'a cycle upstream of a join, fail / succeed commands); '
                     'every action outcome and guard value symbolic; '
                     'delivery order: FIFO with <= 1 out-of-order delivery '
                     'at any point',
            'thorough': 'same shapes, <= 2 out-of-order deliveries'},
    stubs=['minidb', 'QueueRPC', 'FakeScheduler', 'FakeExecutor',
           'post-commit queue inline', 'expr_stub for guard strings',
           'deterministic uuid / clock'],
    outside='shapes outside the catalogue; with-items / policies (C07, '
            'C08); overlapping engine transactions (an engine transaction '
            'is atomic here; base.tx_lock makes that true per process)',
    timeout=(400, 2400))
def c01_e(ctx):
    """at quiescence the run is finished, no task is left waiting, final
    workflow / task states equal the reference semantics for every outcome
    assignment and delivery order explored, no entry point raised an
    undeclared error, no post-commit operation failed"""
    boot()
    for shape, text in shapes.RUN_SHAPES.items():
        yield Case(shape, run_case(shape, text, ctx.pick(1, 2)),
                   needed=['quiescent'], max_paths=300000)


# ---------------------------------------------------------------------------
# C01.G  the SHAPE of the workflow is a solver choice too
# ---------------------------------------------------------------------------
_NAMES = 'abcde'


def gen_shape(n, kinds, joins):
    """A direct workflow over n tasks with forward edges only: for every
    pair i < j the clause kind of the route i -> j is a solver choice
    (none / on-success / on-error / on-complete); a task with >= 2 inbound
    routes is a join whose kind is a solver choice.  Returns (key, text)."""
    edges = {}
    for j in range(1, n):
        for i in range(j):
            edges[(i, j)] = choice('e%d%d' % (i, j), kinds)
    join = {}
    for j in range(1, n):
        inbound = [i for i in range(j) if edges[(i, j)] != 'none']
        if len(inbound) >= 2:
            opts = [x for x in joins
                    if not isinstance(x, int) or x <= len(inbound)]
            join[j] = choice('join%d' % j, opts)
    lines = ["version: '2.0'", 'wf:', '  tasks:']
    for i in range(n):
        lines.append('    %s:' % _NAMES[i])
        lines.append('      action: std.noop')
        if i in join:
            lines.append('      join: %s' % join[i])
        for kind, key in (('S', 'on-success'), ('E', 'on-error'),
                          ('C', 'on-complete')):
            tg = []
            for j in range(i + 1, n):
                if edges[(i, j)] == kind:
                    tg.append(_NAMES[j])
                elif edges[(i, j)] == kind + 'g':
                    # guarded route: the guard's value is a solver variable
                    tg.append('{%s: <%% $.g%d%d %%>}' % (_NAMES[j], i, j))
            if tg:
                lines.append('      %s: [%s]' % (key, ', '.join(tg)))
    key = ''.join('%s' % edges[(i, j)][:2].replace('o', '') for j in range(1, n)
                  for i in range(j)) + '/' + ','.join(
        '%s=%s' % (_NAMES[j], v) for j, v in sorted(join.items()))
    return key, '\n'.join(lines) + '\n'


def gen_case(n, kinds, joins, preemptions, oid='C01.G'):
    def case():
        key, text = gen_shape(n, kinds, joins)
        note('shape', key)
        inner = run_case('gen%d' % n, text, preemptions, oid=oid)
        inner()
        reach('shape-ran')
        if 'join' in text:
            reach('shape-with-join')
    return case


@obligation(
    'C01.G', engine='symx+world(minidb)',
    functions=['mistral.engine.default_engine:DefaultEngine.start_workflow',
               'mistral.engine.default_engine:DefaultEngine.on_action_complete',
               'mistral.engine.task_handler:_refresh_task_state',
               'mistral.engine.task_handler:_check_affected_tasks',
               'mistral.engine.tasks:Task.complete',
               'mistral.engine.tasks:Task.defer',
               'mistral.engine.dispatcher:dispatch_workflow_commands',
               'mistral.engine.workflows:Workflow.check_and_complete',
               'mistral.workflow.direct_workflow:'
               'DirectWorkflowController._find_next_tasks',
               'mistral.workflow.direct_workflow:'
               'DirectWorkflowController._get_join_logical_state',
               'mistral.workflow.direct_workflow:'
               'DirectWorkflowController.all_errors_handled',
               'mistral.lang.v2.workflows:DirectWorkflowSpec.'
               'validate_semantics'],
    bounds={'quick': 'EVERY direct workflow over 3 tasks with forward routes: '
                     'for each pair i<j the route is none / on-success / '
                     'on-error / on-complete, plain or behind a guard whose '
                     'value is symbolic (solver choice), a task with >= '
                     '2 inbound routes is a join all / one / 2 (solver '
                     'choice); every action outcome symbolic; delivery '
                     'order: FIFO with <= 1 out-of-order delivery for the '
                     'unguarded shapes, FIFO for the guarded ones',
            'thorough': '3 tasks: guarded shapes too with <= 1 out-of-order '
                        'delivery; every such workflow over 4 tasks with routes none / '
                        'on-success / on-error and joins all / one; <= 1 '
                        'out-of-order delivery'},
    stubs=['minidb', 'QueueRPC', 'FakeScheduler', 'FakeExecutor',
           'post-commit queue inline', 'jsonschema schema check memoised'],
    outside='cycles, engine commands, more than 4 tasks, tasks with '
            'several executions (a non-join task with two inbound routes '
            'never occurs: it is made a join)',
    timeout=(500, 3000))
def c01_g(ctx):
    """for every generated shape, outcome assignment and explored delivery
    order the run ends finished with the workflow and task states the
    reference semantics prescribes, without undeclared errors"""
    boot()
    if ctx.quick:
        yield Case('3-tasks', gen_case(3, ['none', 'S', 'E', 'C'],
                                       ['all', 'one', 2], 1),
                   needed=['shape-ran', 'shape-with-join', 'quiescent'],
                   max_paths=2000000, shard_depth=7, procs=14)
        yield Case('3-tasks-guards',
                   gen_case(3, ['none', 'S', 'E', 'C', 'Sg', 'Eg', 'Cg'],
                            ['all', 'one', 2], 0),
                   needed=['shape-ran', 'shape-with-join', 'quiescent'],
                   max_paths=2000000, shard_depth=8, procs=14)
    else:
        yield Case('3-tasks', gen_case(3, ['none', 'S', 'E', 'C', 'Sg',
                                           'Eg', 'Cg'],
                                       ['all', 'one', 2], 1),
                   needed=['shape-ran', 'shape-with-join', 'quiescent'],
                   max_paths=2000000, shard_depth=8, procs=14)
        yield Case('4-tasks', gen_case(4, ['none', 'S', 'E'],
                                       ['all', 'one'], 1),
                   needed=['shape-ran', 'shape-with-join', 'quiescent'],
                   max_paths=5000000, shard_depth=8, procs=14)


# ---------------------------------------------------------------------------
# C01.F  a declared error raised at ANY evaluation / action start never
# leaves the run hanging
# ---------------------------------------------------------------------------
FAULT_WF = """
version: '2.0'
wf:
  input:
    - xs: [1, 2]
    - d: 1
  vars:
    v: <% $.d %>
  output:
    out: <% $.get(p, none) %>
  task-defaults:
    on-error: [cleanup]
  tasks:
    a:
      action: std.echo output=<% $.v %>
      wait-before: <% $.d %>
      publish:
        p: <% task().result %>
      on-success: [b, c]
    b:
      with-items: i in <% $.xs %>
      concurrency: 1
      action: std.echo output=<% $.i %>
      retry:
        count: 1
        delay: 0
      on-success: j
    c:
      action: std.noop
      wait-after: <% $.d %>
      timeout: 50
      on-complete: j
    j:
      join: all
      action: std.echo output=<% $.p %>
      publish:
        q: <% task().result %>
    cleanup:
      action: std.noop
"""


def _fault_case(kind, n_max):
    """the k-th call (k a solver choice) of a choke point raises a DECLARED
    error: expression evaluation -> YaqlEvaluationException, action
    parameter check -> mistral_lib ActionException"""
    def case():
        from vt.world import World
        from vt import env as venv
        from mistral import expressions
        from mistral import exceptions as exc
        from mistral_lib import exceptions as lib_exc
        from mistral_lib import actions as ml
        k = choice('fault_at', list(range(n_max)))
        st = {'n': 0, 'fired': None}
        real_eval = expressions.evaluate

        def evaluate(expression, context):
            if isinstance(expression, str) and ('<%' in expression
                                                or '{{' in expression):
                st['n'] += 1
                if st['n'] - 1 == k and kind == 'eval':
                    st['fired'] = expression
                    raise exc.YaqlEvaluationException(
                        'injected: cannot evaluate %s' % expression)
            return real_eval(expression, context)

        w = World([FAULT_WF], expr_stub=evaluate if kind == 'eval' else None)
        sig = 'C01.F:%s' % kind
        with w:
            if kind == 'action':
                from mistral.engine import actions as eng_actions
                real_sched = eng_actions.RegularAction.schedule

                def schedule(self, *a, **kw):
                    st['n'] += 1
                    if st['n'] - 1 == k:
                        st['fired'] = self.action_desc.name
                        raise lib_exc.ActionException(
                            'injected: invalid input for %s'
                            % self.action_desc.name)
                    return real_sched(self, *a, **kw)
                w._stack.enter_context(venv.patched(
                    eng_actions.RegularAction, 'schedule', schedule))

            def timers_last(events):
                for e in events:
                    if not (e.kind == 'job' and
                            'fail_task_if_incomplete' in e.label):
                        return e
                return events[0]
            wid = w.start('wf')
            if wid is not None:
                try:
                    w.run(chooser=timers_last, max_events=200)
                except symx.HarnessError:
                    check(False, 'run-does-not-come-to-rest',
                          {'signature': sig + ':endless',
                           'fired': st['fired']})
                    return
            assume(st['fired'] is not None)      # k-th call exists
            reach('fault-injected')
            info = {'fired': st['fired'], 'k': k,
                    'errors': [(m, repr(e)[:160]) for m, e in w.errors]}
            bad = [(m, repr(e)[:200]) for m, e in w.errors
                   if not isinstance(e, (exc.MistralException,
                                         exc.MistralError,
                                         lib_exc.MistralException))]
            check(not bad, 'undeclared-error-escaped',
                  dict(info, signature=sig + ':undeclared'))
            escaped_jobs = [(m, repr(e)[:160]) for m, e in w.errors
                            if m.startswith('job:')]
            check(not escaped_jobs, 'scheduler-job-raised',
                  dict(info, signature=sig + ':job-raised:%s' % (
                      escaped_jobs and escaped_jobs[0][0].split('.')[-1]),
                      jobs=escaped_jobs))
            if wid is None:
                reach('start-refused')
                rows = w.rows('WorkflowExecution')
                check(all(x['state'] in ('ERROR', 'SUCCESS', 'CANCELLED')
                          for x in rows),
                      'refused-start-left-a-running-execution',
                      dict(info, signature=sig + ':start-left-running'))
                return
            x = w.wf_ex(wid)
            info['wf'] = x['state']
            info['tasks'] = [(t['name'], t['state']) for t in w.tasks(wid)]
            reach('ended-' + x['state'])
            check(x['state'] in ('SUCCESS', 'ERROR'),
                  'run-hangs-after-a-declared-error',
                  dict(info, signature=sig + ':hang:%s' % x['state']))
            check(all(t['state'] in ('SUCCESS', 'ERROR', 'CANCELLED')
                      for t in w.tasks(wid)) or x['state'] == 'ERROR',
                  'task-left-unfinished',
                  dict(info, signature=sig + ':task-unfinished'))
            check(not w.swallowed, 'post-commit-operation-failed',
                  dict(info, signature=sig + ':post-commit',
                       swallowed=[repr(s_)[:160] for s_ in w.swallowed]))
    return case


@obligation(
    'C01.F', engine='symx+world(minidb)',
    functions=['mistral.engine.task_handler:run_task',
               'mistral.engine.task_handler:_on_action_complete',
               'mistral.engine.task_handler:continue_task',
               'mistral.engine.task_handler:complete_task',
               'mistral.engine.task_handler:force_fail_task',
               'mistral.engine.task_handler:_refresh_task_state',
               'mistral.engine.task_handler:_scheduled_on_action_complete',
               'mistral.engine.policies:_continue_task',
               'mistral.engine.policies:_complete_task',
               'mistral.engine.workflow_handler:check_and_complete',
               'mistral.engine.workflow_handler:force_fail_workflow',
               'mistral.engine.workflows:Workflow.start',
               'mistral.engine.default_engine:DefaultEngine.start_workflow'],
    bounds='one workflow using vars, output, task-defaults, wait-before, '
           'wait-after, timeout, retry, with-items with concurrency, a join '
           'and publish; the k-th expression evaluation (k < 70, solver '
           'choice) raises YaqlEvaluationException, or the k-th action start '
           '(k < 12) raises mistral_lib ActionException; FIFO delivery, '
           'timers last',
    stubs=['minidb', 'QueueRPC', 'FakeScheduler', 'FakeExecutor running '
           'the real std actions', 'post-commit queue inline'],
    outside='undeclared (non-Mistral) exceptions, database errors, other '
            'delivery orders, more than one fault',
    timeout=(400, 1200))
def c01_f(ctx):
    """wherever a declared error is raised - in any expression evaluation or
    at any action start, inside an RPC handler or a scheduler job - the run
    comes to rest finished (SUCCESS / ERROR), nothing is left running, no
    scheduler job or entry point lets an undeclared error escape"""
    boot()
    yield Case('eval', _fault_case('eval', 70),
               needed=['fault-injected', 'ended-ERROR'], max_paths=100000)
    yield Case('action', _fault_case('action', 12),
               needed=['fault-injected', 'ended-ERROR'], max_paths=100000)


# ---------------------------------------------------------------------------
# C01.R  reverse workflows (generated)
# ---------------------------------------------------------------------------
def _reverse_case(n, preemptions, oid='C01.R'):
    """Every 'requires' DAG over n tasks (task i may require any j < i, each
    requirement a solver choice, given as a list or - for one requirement -
    as a plain string), every target task, every outcome assignment."""
    def case():
        from vt.world import World
        from vt.explorer import Explorer
        from mistral import exceptions as exc
        req = {}
        for i in range(1, n):
            req[i] = [j for j in range(i)
                      if bool(fresh_bool('r%d%d' % (i, j)))]
        target = choice('target', list(range(n)))
        lines = ["version: '2.0'", 'wf:', '  type: reverse', '  tasks:']
        for i in range(n):
            lines.append('    %s:' % _NAMES[i])
            lines.append('      action: std.noop')
            r = req.get(i) or []
            if len(r) == 1:
                lines.append('      requires: %s' % _NAMES[r[0]])
            elif r:
                lines.append('      requires: [%s]' % ', '.join(
                    _NAMES[j] for j in r))
        text = '\n'.join(lines) + '\n'
        # the dependency cone of the target
        cone = set()

        def add(i):
            if i in cone:
                return
            cone.add(i)
            for j in req.get(i) or []:
                add(j)
        add(target)
        sig = '%s:%d' % (oid, n)
        w = World([text])
        with w:
            ex = Explorer(w, sig, preemptions=preemptions)
            wid = w.start('wf', {}, task_name=_NAMES[target])
            check(wid is not None, 'reverse-workflow-not-started',
                  {'signature': sig + ':start', 'text': text,
                   'errors': [repr(e)[:160] for m, e in w.errors]})
            if wid is None:
                return
            ex.check_invariants()
            real_deliver = ex.deliver

            def deliver(ev, *a, **k):
                real_deliver(ev, *a, **k)
                # no task before its prerequisites
                rows = {t['name']: t for t in w.tasks(wid)}
                for name, t in rows.items():
                    i = _NAMES.index(name)
                    for j in req.get(i) or []:
                        p = rows.get(_NAMES[j])
                        check(p is not None and p['state'] == 'SUCCESS',
                              'task-created-before-its-required-task-'
                              'succeeded',
                              {'signature': sig + ':early', 'task': name,
                               'requires': _NAMES[j], 'text': text,
                               'trace': ex.trace[-15:]})
            ex.deliver = deliver
            ex.run()
            reach('quiescent')
            wf_state, tasks, dup = ex.summary(wid)
        # reference: a task of the cone runs once all it requires succeeded
        ran = {}
        progress = True
        while progress:
            progress = False
            for i in sorted(cone):
                nm = _NAMES[i]
                if nm in ran:
                    continue
                if all(ran.get(_NAMES[j]) == 'SUCCESS'
                       for j in req.get(i) or []):
                    ran[nm] = ex.outcome(nm)
                    progress = True
        want = 'SUCCESS' if all(v == 'SUCCESS' for v in ran.values()) \
            else 'ERROR'
        if len(cone) > 1:
            reach('has-requirements')
        if want == 'ERROR':
            reach('failed-run')
        info = {'text': text, 'target': _NAMES[target],
                'outcomes': dict(ex.outcomes), 'engine': [wf_state, tasks],
                'reference': [want, ran], 'trace': ex.trace[-30:]}
        check(wf_state == want, 'final-state-differs-from-language',
              dict(info, signature=sig + ':final-state'))
        check(tasks == ran, 'tasks-differ-from-language',
              dict(info, signature=sig + ':tasks'))
        check(not dup, 'task-ran-twice', dict(info,
                                              signature=sig + ':task-twice'))
        bad = [(m, repr(e)[:200]) for m, e in w.errors
               if not isinstance(e, exc.MistralException)]
        check(not bad, 'engine-entry-point-raised-undeclared-error',
              dict(info, signature=sig + ':undeclared-error', errors=bad))
    return case


@obligation(
    'C01.R', engine='symx+world(minidb)',
    functions=['mistral.workflow.reverse_workflow:ReverseWorkflowController.'
               '_find_next_commands',
               'mistral.workflow.reverse_workflow:ReverseWorkflowController.'
               '_find_task_specs_with_satisfied_dependencies',
               'mistral.workflow.reverse_workflow:ReverseWorkflowController.'
               '_is_satisfied_task',
               'mistral.workflow.reverse_workflow:ReverseWorkflowController.'
               'all_errors_handled',
               'mistral.workflow.reverse_workflow:ReverseWorkflowController.'
               '_get_upstream_task_executions',
               'mistral.lang.v2.workflows:ReverseWorkflowSpec.'
               'get_task_requires',
               'mistral.engine.workflows:Workflow.check_and_complete'],
    bounds={'quick': 'EVERY reverse workflow over 4 tasks (each requirement '
                     'j < i present or not), every target, every outcome '
                     'assignment; FIFO with <= 1 out-of-order delivery',
            'thorough': 'every reverse workflow over 5 tasks'},
    stubs=['minidb', 'QueueRPC', 'FakeScheduler', 'FakeExecutor',
           'post-commit queue inline'],
    outside='task-defaults requires, policies, more than 4 tasks',
    timeout=(400, 2400))
def c01_r(ctx):
    """a reverse workflow runs exactly the tasks of the target's dependency
    cone whose requirements all succeeded, never creates a task before the
    tasks it requires are SUCCESS, each task once, and ends SUCCESS iff all
    of them succeeded, ERROR otherwise"""
    boot()
    n = ctx.pick(4, 5)
    yield Case('%d-tasks' % n, _reverse_case(n, 1),
               needed=['quiescent', 'has-requirements', 'failed-run'],
               max_paths=2000000, shard_depth=ctx.pick(5, 8), procs=14)
