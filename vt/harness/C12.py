"""C12 - rerun or skip of a failed task resumes the run correctly."""
from vt import symx, shapes, scenario
from vt.kit import obligation, Case, boot
from vt.symx import (fresh_bool, check, reach, note, choice, assume)
from vt.harness import C01


def _c12_case(shape, text, preemptions, skip=False, wf_name='wf'):
    spec = C01.parse(text) if wf_name == 'wf' else None

    def case():
        sig = 'C12.E:%s%s' % (shape, ':skip' if skip else '')
        w, start = scenario.make(text, sig, preemptions,
                                 C01.FIXED_GUARDS.get(shape), wf_name=wf_name)
        with w:
            ex, wid = start()
            scenario.run_with_ops(ex, w, [])
            root = w.wf_ex(wid)
            assume(root['state'] == 'ERROR')
            reach('first-run-failed')
            # the failed tasks whose error was not handled and that routed
            # nowhere (rerunning them is "the task produces a new result")
            cands = [t for t in w.rows('TaskExecution')
                     if t['state'] == 'ERROR' and not t['error_handled']
                     and not t['next_tasks'] and not t['unique_key']
                     and (t['spec'] or {}).get('action')]
            assume(len(cands) > 0)
            t = choice('victim', cands)
            reset = choice('reset', [True, False])
            new = 'SKIPPED' if skip else choice('new_outcome',
                                                ['SUCCESS', 'ERROR'])
            ex.outcomes[t['name']] = new if not skip else 'SKIPPED'
            ex.rerun_allowed = True
            r, errs = ex.operator('rerun_workflow', t['id'], reset=reset,
                                  skip=skip)
            info = {'trace': ex.trace[-25:], 'victim': t['name'],
                    'reset': reset, 'new': new,
                    'errors': [repr(e)[:200] for e in errs]}
            check(not errs, 'rerun-of-failed-task-refused',
                  dict(info, signature=sig + ':refused'))
            # the task's workflow and every enclosing workflow / parent task
            # are RUNNING again
            cur = w.wf_ex(t['workflow_execution_id'])
            chain = []
            while cur is not None:
                chain.append(cur)
                pt = cur['task_execution_id']
                if not pt:
                    break
                ptask = [x for x in w.rows('TaskExecution')
                         if x['id'] == pt][0]
                check(ptask['state'] == 'RUNNING',
                      'parent-task-not-running-after-rerun',
                      dict(info, signature=sig + ':parent-task'))
                reach('nested-rerun')
                cur = w.wf_ex(ptask['workflow_execution_id'])
            for c in chain:
                if skip and c['id'] == t['workflow_execution_id'] and \
                        c['state'] in ('SUCCESS', 'ERROR'):
                    continue     # a skip may finish the workflow at once
                check(c['state'] == 'RUNNING',
                      'workflow-not-running-after-rerun',
                      dict(info, signature=sig + ':wf-not-running',
                           state=c['state']))
            n_actions_before = len(w.actions(t['id']))
            scenario.run_with_ops(ex, w, [])
            reach('rerun-done')
            after = [x for x in w.rows('TaskExecution')
                     if x['id'] == t['id']][0]
            if skip:
                check(after['state'] == 'SKIPPED', 'task-not-skipped',
                      dict(info, signature=sig + ':not-skipped',
                           state=after['state']))
                check(len(w.actions(t['id'])) == n_actions_before,
                      'skip-ran-the-action',
                      dict(info, signature=sig + ':skip-ran-action'))
            else:
                check(after['state'] == new, 'rerun-result-not-taken',
                      dict(info, signature=sig + ':result',
                           state=after['state']))
                check(len(w.actions(t['id'])) == n_actions_before + 1,
                      'rerun-did-not-run-exactly-one-new-action',
                      dict(info, signature=sig + ':action-count',
                           n=len(w.actions(t['id'])) - n_actions_before))
                acc = [a for a in w.actions(t['id']) if a['accepted']]
                check(len(acc) == 1, 'old-result-still-accepted',
                      dict(info, signature=sig + ':accepted',
                           n=len(acc)))
            if spec is not None:
                scenario.final_check(ex, w, wid, spec, sig)
            else:
                # parent + child
                states = {x['name']: x['state']
                          for x in w.rows('TaskExecution')}
                root_state = w.wf_ex(wid)['state']
                others_ok = all(ex.outcomes.get(n) != 'ERROR'
                                for n in ('c1', 'c2', 'p2')
                                if n != t['name'])
                if new == 'SUCCESS' and others_ok:
                    check(root_state == 'SUCCESS' and
                          all(s == 'SUCCESS' for s in states.values())
                          and 'p2' in states,
                          'nested-rerun-did-not-finish',
                          dict(info, signature=sig + ':nested-final',
                               states=states, root=root_state))
                elif new == 'ERROR':
                    check(root_state == 'ERROR',
                          'nested-rerun-wrong-final',
                          dict(info, signature=sig + ':nested-final',
                               states=states, root=root_state))
    return case


@obligation(
    'C12.E', engine='symx+world(minidb)',
    functions=['mistral.engine.default_engine:DefaultEngine.rerun_workflow',
               'mistral.engine.workflow_handler:rerun_workflow',
               'mistral.engine.workflows:Workflow.rerun',
               'mistral.engine.workflows:Workflow._recursive_rerun',
               'mistral.engine.task_handler:mark_task_running',
               'mistral.engine.task_handler:skip_task',
               'mistral.engine.tasks:RegularTask._run_existing',
               'mistral.engine.tasks:RegularTask._reset_actions',
               'mistral.workflow.base:WorkflowController.rerun_tasks',
               'mistral.workflow.base:WorkflowController.skip_tasks',
               'mistral.workflow.direct_workflow:'
               'DirectWorkflowController._find_next_tasks'],
    bounds={'quick': 'shapes chain3, fork_join, join_2_of_3_mixed, '
                     'skip routes (with / without on-skip), parent+child; '
                     'first run with symbolic outcomes until the workflow '
                     'is ERROR; victim = any unhandled failed action task '
                     '(symbolic), reset symbolic, new outcome symbolic; FIFO',
            'thorough': '<= 1 out-of-order delivery'},
    stubs=['minidb', 'QueueRPC', 'FakeScheduler', 'FakeExecutor',
           'post-commit queue inline'],
    outside='rerun of with-items (C07), of joins, of tasks whose error '
            'was handled; repeated reruns',
    timeout=(400, 2400))
def c12_e(ctx):
    """rerun: workflow, enclosing workflows and parent tasks go back to
    RUNNING, exactly one new action runs, only its result is accepted, and
    the run ends as the reference says for the new outcome; skip: SKIPPED,
    no action, on-skip else on-success routes, never on-complete"""
    boot()
    k = ctx.pick(0, 1)
    for shape, text in (('chain3', shapes.CHAIN3),
                        ('fork_join', shapes.FORK_JOIN),
                        ('join_2_of_3_mixed', shapes.JOIN_2_OF_3_MIXED)):
        yield Case(shape, _c12_case(shape, text, k),
                   needed=['first-run-failed', 'rerun-done'])
    yield Case('subwf', _c12_case('subwf', shapes.SUBWF_PLAIN, k,
                                  wf_name='parent'),
               needed=['first-run-failed', 'rerun-done', 'nested-rerun'])
    for shape, text in (('skip_routes', shapes.SKIP_ROUTES),
                        ('skip_no_onskip', shapes.SKIP_NO_ONSKIP),
                        ('chain3', shapes.CHAIN3)):
        yield Case(shape + '/skip', _c12_case(shape, text, k, skip=True),
                   needed=['first-run-failed', 'rerun-done'])
