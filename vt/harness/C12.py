"""C12 - rerun or skip of a failed task resumes the run correctly."""
from vt import symx, shapes, scenario
from vt.kit import obligation, Case, boot
from vt.symx import (fresh_bool, check, reach, note, choice, assume)
from vt.harness import C01


def _c12_case(shape, text, preemptions, skip=False, wf_name='wf'):
    spec = C01.parse(text) if wf_name == 'wf' else None

    def case():
        sig = 'C12.E:%s%s' % (shape, ':skip' if skip else '')
        w, start = scenario.make(text, sig, preemptions,
                                 C01.FIXED_GUARDS.get(shape), wf_name=wf_name)
        with w:
            ex, wid = start()
            scenario.run_with_ops(ex, w, [])
            root = w.wf_ex(wid)
            assume(root['state'] == 'ERROR')
            reach('first-run-failed')
            # the failed tasks whose error was not handled and that routed
            # nowhere (rerunning them is "the task produces a new result")
            cands = [t for t in w.rows('TaskExecution')
                     if t['state'] == 'ERROR' and not t['error_handled']
                     and not t['next_tasks'] and not t['unique_key']
                     and (t['spec'] or {}).get('action')]
            assume(len(cands) > 0)
            t = choice('victim', cands)
            reset = choice('reset', [True, False])
            new = 'SKIPPED' if skip else choice('new_outcome',
                                                ['SUCCESS', 'ERROR'])
            ex.outcomes[t['name']] = new if not skip else 'SKIPPED'
            ex.rerun_allowed = True
            r, errs = ex.operator('rerun_workflow', t['id'], reset=reset,
                                  skip=skip)
            info = {'trace': ex.trace[-25:], 'victim': t['name'],
                    'reset': reset, 'new': new,
                    'errors': [repr(e)[:200] for e in errs]}
            check(not errs, 'rerun-of-failed-task-refused',
                  dict(info, signature=sig + ':refused'))
            # the task's workflow and every enclosing workflow / parent task
            # are RUNNING again
            cur = w.wf_ex(t['workflow_execution_id'])
            chain = []
            while cur is not None:
                chain.append(cur)
                pt = cur['task_execution_id']
                if not pt:
                    break
                ptask = [x for x in w.rows('TaskExecution')
                         if x['id'] == pt][0]
                check(ptask['state'] == 'RUNNING',
                      'parent-task-not-running-after-rerun',
                      dict(info, signature=sig + ':parent-task'))
                reach('nested-rerun')
                cur = w.wf_ex(ptask['workflow_execution_id'])
            for c in chain:
                if skip and c['id'] == t['workflow_execution_id'] and \
                        c['state'] in ('SUCCESS', 'ERROR'):
                    continue     # a skip may finish the workflow at once
                check(c['state'] == 'RUNNING',
                      'workflow-not-running-after-rerun',
                      dict(info, signature=sig + ':wf-not-running',
                           state=c['state']))
            n_actions_before = len(w.actions(t['id']))
            scenario.run_with_ops(ex, w, [])
            reach('rerun-done')
            after = [x for x in w.rows('TaskExecution')
                     if x['id'] == t['id']][0]
            if skip:
                check(after['state'] == 'SKIPPED', 'task-not-skipped',
                      dict(info, signature=sig + ':not-skipped',
                           state=after['state']))
                check(len(w.actions(t['id'])) == n_actions_before,
                      'skip-ran-the-action',
                      dict(info, signature=sig + ':skip-ran-action'))
            else:
                check(after['state'] == new, 'rerun-result-not-taken',
                      dict(info, signature=sig + ':result',
                           state=after['state']))
                check(len(w.actions(t['id'])) == n_actions_before + 1,
                      'rerun-did-not-run-exactly-one-new-action',
                      dict(info, signature=sig + ':action-count',
                           n=len(w.actions(t['id'])) - n_actions_before))
                acc = [a for a in w.actions(t['id']) if a['accepted']]
                check(len(acc) == 1, 'old-result-still-accepted',
                      dict(info, signature=sig + ':accepted',
                           n=len(acc)))
            if spec is not None:
                scenario.final_check(ex, w, wid, spec, sig)
            else:
                # parent + child
                states = {x['name']: x['state']
                          for x in w.rows('TaskExecution')}
                root_state = w.wf_ex(wid)['state']
                others_ok = all(ex.outcomes.get(n) != 'ERROR'
                                for n in ('c1', 'c2', 'p2')
                                if n != t['name'])
                if new == 'SUCCESS' and others_ok:
                    check(root_state == 'SUCCESS' and
                          all(s == 'SUCCESS' for s in states.values())
                          and 'p2' in states,
                          'nested-rerun-did-not-finish',
                          dict(info, signature=sig + ':nested-final',
                               states=states, root=root_state))
                elif new == 'ERROR':
                    check(root_state == 'ERROR',
                          'nested-rerun-wrong-final',
                          dict(info, signature=sig + ':nested-final',
                               states=states, root=root_state))
    return case


SKIP_JOIN_DATA = """
version: '2.0'
wf:
  output:
    seen: <% $.get(seen, none) %>
    seen_j: <% $.get(seen_j, none) %>
  tasks:
    r:
      action: std.noop
      publish:
        root_var: R
      on-success: [a, b]
    a:
      action: std.noop
      publish:
        v: published
      publish-on-skip:
        v: skipped
      on-skip: [c, j]
      on-success: [c, j]
    b:
      action: std.noop
      on-success: j
    c:
      action: std.noop
      publish:
        seen: <% [$.get(v, none), $.get(root_var, none)] %>
    j:
      join: all
      action: std.noop
      publish:
        seen_j: <% [$.get(v, none), $.get(root_var, none)] %>
"""


def _c12_skip_data_case():
    """a failed task is skipped: what it publishes on skip reaches every
    task it routes to - a plain task and a join alike"""
    def case():
        from vt.world import World
        from mistral_lib import actions as ml
        sig = 'C12.skip-data'
        w = World([SKIP_JOIN_DATA], sym_upstream_order=True)
        with w:
            wid = w.start('wf')
            phase = {'n': 1}

            def res(ev):
                tid = ev.payload['exec_ctx'].get('task_execution_id')
                n = [t for t in w.rows('TaskExecution')
                     if t['id'] == tid][0]['name']
                if n == 'a' and phase['n'] == 1:
                    return ml.Result(error='boom')
                return ml.Result(data='ok')
            w.run(result_of=res)
            a = w.task('a', wid)
            assume(a is not None and a['state'] == 'ERROR')
            phase['n'] = 2
            w.call('rerun_workflow', a['id'], reset=True, skip=True)
            w.run(result_of=res)
            reach('skipped')
            x = w.wf_ex(wid)
            info = {'state': x['state'], 'output': x['output'],
                    'tasks': [(t['name'], t['state'])
                              for t in w.tasks(wid)],
                    'errors': [repr(e)[:160] for m, e in w.errors]}
            check(x['state'] == 'SUCCESS' and w.task('a', wid)['state'] ==
                  'SKIPPED', 'skip-did-not-finish-the-run',
                  dict(info, signature=sig + ':final'))
            for name, key in (('c', 'seen'), ('j', 'seen_j')):
                t = w.task(name, wid)
                check(t is not None and
                      (t['in_context'] or {}).get('v') == 'skipped' and
                      (t['in_context'] or {}).get('root_var') == 'R',
                      'published-on-skip-not-visible-downstream',
                      dict(info, signature=sig + ':%s' % name, task=name,
                           in_context={k: v for k, v in
                                       ((t and t['in_context']) or {}).items()
                                       if not k.startswith('__')}))
            check((x['output'] or {}).get('seen') == ['skipped', 'R'] and
                  (x['output'] or {}).get('seen_j') == ['skipped', 'R'],
                  'output-misses-data-published-on-skip',
                  dict(info, signature=sig + ':output'))
    return case


JOIN_RERUN = """
version: '2.0'
wf:
  tasks:
    t1:
      action: std.noop
      on-success: j
    t2:
      action: std.noop
      on-success: j
      on-error: j
    j:
      join: all
      action: std.noop
"""


def _c12_join_inbound_case(preemptions):
    """an inbound task of a join failed and routed to the join; it is rerun
    while the other inbound task is still running; the join must not start
    before the rerun has finished (a task running again has not completed),
    and must start exactly once afterwards; the request that reran the task
    is then delivered a second time (message redelivery) and must change
    nothing"""
    def case():
        from vt.world import World, Event
        from vt.explorer import Explorer
        from mistral_lib import actions as ml
        from mistral import exceptions as exc
        sig = 'C12.join-inbound'
        w = World([JOIN_RERUN])
        with w:
            ex = Explorer(w, sig, preemptions=0)
            ex.rerun_allowed = True
            phase = {'n': 1}

            def tname(ev):
                tid = ev.payload['exec_ctx'].get('task_execution_id')
                return [t for t in w.rows('TaskExecution')
                        if t['id'] == tid][0]['name']

            def result_for(ev):
                if tname(ev) == 't2' and phase['n'] == 1:
                    return ml.Result(error='first attempt fails')
                return ml.Result(data='ok')
            ex.result_for = result_for
            wid = w.start('wf')
            ex.check_invariants()
            for _ in range(40):
                evs = [e for e in w.events
                       if not (e.kind == 'action' and tname(e) == 't1')]
                if not evs:
                    break
                ex.deliver(evs[0])
            t1, t2, j = (w.task(n, wid) for n in ('t1', 't2', 'j'))
            assume(t2 is not None and t2['state'] == 'ERROR' and
                   t1['state'] == 'RUNNING' and j is not None and
                   j['state'] == 'WAITING')
            reach('inbound-failed-join-waiting')
            phase['n'] = 2
            r, errs = ex.operator('rerun_workflow', t2['id'], reset=True)
            info = {'trace': ex.trace[-30:],
                    'errors': [repr(e)[:200] for e in errs]}
            check(not errs, 'rerun-of-failed-task-refused',
                  dict(info, signature=sig + ':refused'))
            rerun_msgs = [e for e in w.events if e.kind == 'rpc' and
                          e.payload[0] == 'start_task']
            ex.preemptions = preemptions
            real_deliver = ex.deliver

            def deliver(ev, *a, **k):
                real_deliver(ev, *a, **k)
                jj = w.task('j', wid)
                tt2 = w.task('t2', wid)
                tt1 = w.task('t1', wid)
                started = jj is not None and (
                    w.actions(jj['id']) or jj['state'] in ('RUNNING',
                                                           'SUCCESS'))
                if started:
                    reach('join-started')
                    check(tt1['state'] == 'SUCCESS' and
                          tt2['state'] in ('SUCCESS', 'ERROR'),
                          'join-started-before-its-inbound-tasks-completed',
                          {'signature': sig + ':join-early',
                           't1': tt1['state'], 't2': tt2['state'],
                           'trace': ex.trace[-20:]})
            ex.deliver = deliver
            ex.run()
            reach('rerun-done')
            states = {t['name']: t['state'] for t in w.tasks(wid)}
            info = dict(info, trace=ex.trace[-35:], states=states,
                        wf=w.wf_ex(wid)['state'])
            check(states == {'t1': 'SUCCESS', 't2': 'SUCCESS',
                             'j': 'SUCCESS'} and
                  w.wf_ex(wid)['state'] == 'SUCCESS',
                  'final-state-differs-from-language',
                  dict(info, signature=sig + ':final'))
            jrow = w.task('j', wid)
            check(len(w.actions(jrow['id'])) == 1,
                  'join-action-dispatched-twice',
                  dict(info, signature=sig + ':join-twice',
                       n=len(w.actions(jrow['id']))))
            # the rerun request is delivered once more
            if rerun_msgs:
                before = (dict(states), w.wf_ex(wid)['state'],
                          len(w.rows('ActionExecution')))
                n_err = len(w.errors)
                ev = rerun_msgs[0]
                ev2 = Event('rpc', ev.label + ' (redelivered)', ev.payload)
                w.post(ev2)
                ex.deliver(ev2)
                ex.run()
                reach('rerun-request-redelivered')
                after = ({t['name']: t['state'] for t in w.tasks(wid)},
                         w.wf_ex(wid)['state'],
                         len(w.rows('ActionExecution')))
                check(after == before,
                      'redelivered-rerun-request-changed-a-finished-run',
                      dict(info, signature=sig + ':redelivery',
                           before=before, after=after))
                bad = [(m, repr(e)[:200]) for m, e in w.errors[n_err:]
                       if not isinstance(e, (exc.MistralException,
                                             exc.MistralError))]
                check(not bad, 'redelivery-raised-undeclared-error',
                      dict(info, signature=sig + ':redelivery-error',
                           errors=bad))
    return case


MIDRUN = """
version: '2.0'
wf:
  tasks:
    x:
      action: std.noop
      on-success: x2
    y:
      action: std.noop
      on-success: y2
    x2:
      action: std.noop
    y2:
      action: std.noop
"""


def _c12_midrun_case(preemptions):
    """the failed task is rerun while another branch of the same workflow is
    still running (the workflow has not come to rest yet)"""
    def case():
        from vt.world import World
        from vt.explorer import Explorer
        from mistral_lib import actions as ml
        sig = 'C12.midrun'
        w = World([MIDRUN])
        with w:
            ex = Explorer(w, sig, preemptions=0)
            ex.rerun_allowed = True
            phase = {'n': 1}

            def tname(ev):
                tid = ev.payload['exec_ctx'].get('task_execution_id')
                return [t for t in w.rows('TaskExecution')
                        if t['id'] == tid][0]['name']

            def result_for(ev):
                n = tname(ev)
                if n == 'x':
                    if phase['n'] == 1:
                        return ml.Result(error='first attempt fails')
                    out = ex.outcome('x_second')
                    return ml.Result(data='ok') if out == 'SUCCESS' \
                        else ml.Result(error='boom')
                return ml.Result(data='ok')
            ex.result_for = result_for
            wid = w.start('wf')
            ex.check_invariants()
            # deliver everything except y's action (a slow executor)
            held = []
            for _ in range(40):
                evs = [e for e in w.events
                       if not (e.kind == 'action' and tname(e) == 'y')]
                if not evs:
                    break
                ex.deliver(evs[0])
            x = w.task('x', wid)
            y = w.task('y', wid)
            assume(x is not None and x['state'] == 'ERROR' and
                   y is not None and y['state'] == 'RUNNING')
            reach('failed-while-sibling-running')
            wf_before = w.wf_ex(wid)['state']
            note('wf state at rerun', wf_before)
            phase['n'] = 2
            reset = choice('reset', [True, False])
            r, errs = ex.operator('rerun_workflow', x['id'], reset=reset)
            info = {'trace': ex.trace[-30:], 'wf_before': wf_before,
                    'errors': [repr(e)[:200] for e in errs]}
            check(not errs, 'rerun-of-failed-task-refused',
                  dict(info, signature=sig + ':refused'))
            ex.preemptions = preemptions
            ex.run()
            reach('rerun-done')
            new = ex.outcomes.get('x_second')
            states = {t['name']: t['state'] for t in w.tasks(wid)}
            wf = w.wf_ex(wid)
            info = dict(info, trace=ex.trace[-35:], states=states,
                        wf=wf['state'], new=new)
            want = {'x': new, 'y': 'SUCCESS', 'y2': 'SUCCESS'}
            if new == 'SUCCESS':
                want['x2'] = 'SUCCESS'
            check(states == want, 'tasks-differ-from-language',
                  dict(info, signature=sig + ':tasks', want=want))
            check(wf['state'] == ('SUCCESS' if new == 'SUCCESS'
                                  else 'ERROR'),
                  'final-state-differs-from-language',
                  dict(info, signature=sig + ':final-state'))
            names = [t['name'] for t in w.tasks(wid)]
            check(len(names) == len(set(names)), 'task-created-twice',
                  dict(info, signature=sig + ':task-twice'))
            xa = w.actions(w.task('x', wid)['id'])
            check(len(xa) == 2 and len([a for a in xa if a['accepted']]) == 1,
                  'rerun-did-not-run-exactly-one-new-action',
                  dict(info, signature=sig + ':action-count', n=len(xa)))
            for n_ in ('y', 'x2', 'y2'):
                t_ = w.task(n_, wid)
                if t_ is not None:
                    check(len(w.actions(t_['id'])) == 1,
                          'action-dispatched-twice',
                          dict(info, signature=sig + ':action-twice',
                               task=n_))
    return case


ITEMS_SUBWF = """
version: '2.0'
parent:
  tasks:
    p1:
      with-items: i in [0, 1]
      workflow: child
      on-success: p2
    p2:
      action: std.noop
child:
  tasks:
    c1:
      action: std.noop
"""


def _c12_items_case(preemptions):
    """two sub-workflows of one with-items task failed; the failed task of
    each is rerun; the reruns finish in any order with any outcome"""
    def case():
        from vt.world import World
        from vt.explorer import Explorer
        from mistral_lib import actions as ml
        sig = 'C12.items'
        w = World([ITEMS_SUBWF])
        with w:
            ex = Explorer(w, sig, preemptions=0)
            phase = {'n': 1}

            def child_index(ev):
                tid = ev.payload['exec_ctx'].get('task_execution_id')
                t = [x for x in w.rows('TaskExecution') if x['id'] == tid][0]
                wf = w.wf_ex(t['workflow_execution_id'])
                if wf['workflow_name'] != 'child':
                    return None
                return (wf['runtime_context'] or {}).get('index')

            def result_for(ev):
                i = child_index(ev)
                if i is None:
                    return ml.Result(data='ok')
                if phase['n'] == 1:
                    return ml.Result(error='first attempt fails')
                out = ex.outcome('second%s' % i)
                return ml.Result(data='ok%s' % i) if out == 'SUCCESS' \
                    else ml.Result(error='boom%s' % i)
            ex.result_for = result_for
            wid = w.start('parent')
            ex.check_invariants()
            ex.run()
            root = w.wf_ex(wid)
            assume(root['state'] == 'ERROR')
            reach('first-run-failed')
            victims = [t for t in w.rows('TaskExecution')
                       if t['name'] == 'c1' and t['state'] == 'ERROR']
            assume(len(victims) == 2)
            phase['n'] = 2
            ex.rerun_allowed = True
            ex.preemptions = preemptions
            info = {'trace': ex.trace}
            for t in victims:
                r, errs = ex.operator('rerun_workflow', t['id'], reset=True)
                check(not errs, 'rerun-of-failed-task-refused',
                      dict(info, signature=sig + ':refused',
                           errors=[repr(e)[:200] for e in errs]))
            p1 = w.task('p1', wid)
            check(p1['state'] == 'RUNNING' and
                  w.wf_ex(wid)['state'] == 'RUNNING',
                  'parent-not-running-after-rerun',
                  dict(info, signature=sig + ':parent-task',
                       p1=p1['state'], root=w.wf_ex(wid)['state']))
            real_deliver = ex.deliver

            def deliver(ev, *a, **k):
                real_deliver(ev, *a, **k)
                kids = [x for x in w.rows('WorkflowExecution')
                        if x['task_execution_id']]
                p1_ = w.task('p1', wid)
                if any(x['state'] == 'RUNNING' for x in kids):
                    reach('one-child-still-running')
                    check(p1_['state'] == 'RUNNING',
                          'parent-task-finished-with-a-child-running',
                          dict(info, signature=sig + ':parent-early',
                               p1=p1_['state'],
                               kids=[x['state'] for x in kids]))
            ex.deliver = deliver
            ex.run()
            reach('rerun-done')
            outs = [ex.outcomes.get('second0'), ex.outcomes.get('second1')]
            want = 'SUCCESS' if outs == ['SUCCESS', 'SUCCESS'] else 'ERROR'
            p1 = w.task('p1', wid)
            root = w.wf_ex(wid)
            info = {'trace': ex.trace[-30:], 'outcomes': outs}
            check(p1['state'] == want and root['state'] == want,
                  'nested-rerun-wrong-final',
                  dict(info, signature=sig + ':final', p1=p1['state'],
                       root=root['state'], want=want))
            check((w.task('p2', wid) is not None) == (want == 'SUCCESS'),
                  'follow-up-of-parent-task-wrong',
                  dict(info, signature=sig + ':follow-up'))
    return case


@obligation(
    'C12.E', engine='symx+world(minidb)',
    functions=['mistral.engine.default_engine:DefaultEngine.rerun_workflow',
               'mistral.engine.workflow_handler:rerun_workflow',
               'mistral.engine.workflows:Workflow.rerun',
               'mistral.engine.workflows:Workflow._recursive_rerun',
               'mistral.engine.task_handler:mark_task_running',
               'mistral.engine.task_handler:skip_task',
               'mistral.engine.tasks:RegularTask._run_existing',
               'mistral.engine.tasks:RegularTask._reset_actions',
               'mistral.workflow.base:WorkflowController.rerun_tasks',
               'mistral.workflow.base:WorkflowController.skip_tasks',
               'mistral.workflow.direct_workflow:'
               'DirectWorkflowController._find_next_tasks'],
    bounds={'quick': 'shapes chain3, fork_join, join_2_of_3_mixed, '
                     'skip routes (with / without on-skip), parent+child, a '
                     'rerun issued while a sibling branch is still running, '
                     'a rerun of a failed inbound task of a waiting join '
                     '(then the rerun request redelivered), data published '
                     'on skip reaching a task and a join, a '
                     'with-items task over two sub-workflows that both '
                     'failed and are both rerun (outcomes and <= 2 '
                     'out-of-order deliveries symbolic); '
                     'first run with symbolic outcomes until the workflow '
                     'is ERROR; victim = any unhandled failed action task '
                     '(symbolic), reset symbolic, new outcome symbolic; FIFO',
            'thorough': '<= 1 out-of-order delivery'},
    stubs=['minidb', 'QueueRPC', 'FakeScheduler', 'FakeExecutor',
           'post-commit queue inline'],
    outside='rerun of with-items (C07), of joins, of tasks whose error '
            'was handled; repeated reruns',
    timeout=(400, 2400))
def c12_e(ctx):
    """rerun: workflow, enclosing workflows and parent tasks go back to
    RUNNING, exactly one new action runs, only its result is accepted, and
    the run ends as the reference says for the new outcome; skip: SKIPPED,
    no action, on-skip else on-success routes, never on-complete"""
    boot()
    k = ctx.pick(0, 1)
    for shape, text in (('chain3', shapes.CHAIN3),
                        ('fork_join', shapes.FORK_JOIN),
                        ('join_2_of_3_mixed', shapes.JOIN_2_OF_3_MIXED)):
        yield Case(shape, _c12_case(shape, text, k),
                   needed=['first-run-failed', 'rerun-done'])
    yield Case('subwf', _c12_case('subwf', shapes.SUBWF_PLAIN, k,
                                  wf_name='parent'),
               needed=['first-run-failed', 'rerun-done', 'nested-rerun'])
    yield Case('skip/data', _c12_skip_data_case(),
               needed=['skipped'], replay=_strong_skip_data)
    yield Case('join-inbound', _c12_join_inbound_case(max(k, 1)),
               needed=['inbound-failed-join-waiting', 'rerun-done',
                       'join-started', 'rerun-request-redelivered'])
    yield Case('mid-run', _c12_midrun_case(max(k, 1)),
               needed=['failed-while-sibling-running', 'rerun-done'])
    yield Case('items-subwf', _c12_items_case(max(k, 1) + 1),
               needed=['first-run-failed', 'rerun-done',
                       'one-child-still-running'])
    for shape, text in (('skip_routes', shapes.SKIP_ROUTES),
                        ('skip_no_onskip', shapes.SKIP_NO_ONSKIP),
                        ('chain3', shapes.CHAIN3)):
        yield Case(shape + '/skip', _c12_case(shape, text, k, skip=True),
                   needed=['first-run-failed', 'rerun-done'])


def _strong_skip_data(model, v):
    from vt import kit
    return kit.run_strong_test('test_c12_skip_publish_join.py', timeout=90)
