"""C04 - no task starts before its prerequisites; a join runs exactly
once."""
from vt import symx, minidb, env, shapes
from vt.kit import obligation, Case, boot
from vt.symx import (fresh_int, fresh_bool, fresh_enum, check, reach, note,
                     sym_and, sym_or, sym_not, implies, choice, assume)
from vt.harness import C01


@obligation(
    'C04.1', engine='symx+minidb',
    functions=C01.c01_2.__wrapped__.functions
    if hasattr(C01.c01_2, '__wrapped__') else
    ['mistral.workflow.direct_workflow:'
     'DirectWorkflowController._get_join_logical_state',
     'mistral.workflow.direct_workflow:'
     'DirectWorkflowController._get_induced_join_state',
     'mistral.workflow.direct_workflow:'
     'DirectWorkflowController._possible_route'],
    bounds='as C01.2 (7 shapes, symbolic existence / state / routing of '
           'every upstream task)',
    stubs=['minidb'], timeout=(200, 900))
def c04_1(ctx):
    """a join is logically RUNNING only once the required number of inbound
    tasks completed and routed to it, and ERROR once that is impossible
    (same lemma as C01.2)"""
    boot()
    for c in C01.c01_2(ctx):
        yield c


def _need(spec, j):
    join = spec.get_tasks()[j].get_join()
    n_in = len(spec.find_inbound_task_specs(spec.get_tasks()[j]))
    if join == 'all':
        return n_in
    return 1 if join == 'one' else int(join)


def join_invariant(spec):
    """checked after every delivery: a join that has been started (has an
    action execution / is RUNNING or finished successfully) has enough
    inbound tasks that completed and routed to it"""
    joins = [t.get_name() for t in spec.get_tasks() if t.get_join()]

    def inv(w, ex, wid, inf):
        tasks = {t['name']: t for t in w.tasks(wid)}
        for j in joins:
            t = tasks.get(j)
            if t is None:
                continue
            n_act = len(w.actions(t['id']))
            started = n_act > 0 or t['state'] in ('RUNNING', 'SUCCESS')
            if not started:
                continue
            routed = 0
            for s in spec.find_inbound_task_specs(spec.get_tasks()[j]):
                p = tasks.get(s.get_name())
                if p is not None and p['state'] in ('SUCCESS', 'ERROR',
                                                    'CANCELLED') and \
                        j in [x[0] for x in (p['next_tasks'] or [])]:
                    routed += 1
            reach('join-started')
            check(routed >= _need(spec, j), 'join-started-too-early',
                  inf('join-early'))
            if not ex.taint:
                check(n_act <= 1, 'join-action-dispatched-twice',
                      inf('join-twice'))
    return inv


def _c04_e_case(shape, text, preemptions):
    spec = C01.parse(text)
    inv = join_invariant(spec)

    def case():
        from vt.world import World
        from vt.explorer import Explorer
        from mistral import expressions
        holder = {}
        real_eval = expressions.evaluate

        def stub(e, c):
            return holder['ex'].expr_stub(real_eval)(e, c)
        w = World([text], expr_stub=stub)
        with w:
            ex = Explorer(w, 'C04.E:%s' % shape, preemptions=preemptions,
                          guards=dict(C01.FIXED_GUARDS.get(shape, {})))
            holder['ex'] = ex
            wid = w.start('wf')
            sig = 'C04.E:%s:' % shape

            def inf(s):
                d = {'trace': ex.trace[-25:], 'outcomes': dict(ex.outcomes)}
                d['signature'] = sig + s + (
                    ':after-' + ex.taint if ex.taint else '')
                return d
            real_deliver = ex.deliver

            def deliver(ev, *a, **k):
                real_deliver(ev, *a, **k)
                inv(w, ex, wid, inf)
            ex.deliver = deliver
            ex.check_invariants()
            ex.run()
            reach('quiescent')
            # every task name ran at most once (single-instance shapes)
            names = [t['name'] for t in w.tasks(wid)]
            check(len(names) == len(set(names)), 'task-created-twice',
                  inf('task-twice'))
    return case


def _strong_join_reset(model, v):
    """F14 through the real engine (real threads, sqlite): the join of a
    'join: one' workflow runs twice when the slower branch finishes late"""
    if 'join-reset' not in (v.get('signature') or ''):
        return True, 'no strong replay for this kind of violation'
    from vt import kit
    return kit.run_strong_test('test_c04_join_one_late_branch.py',
                               timeout=45)


@obligation(
    'C04.E', engine='symx+world(minidb)',
    functions=['mistral.engine.tasks:Task.defer',
               'mistral.engine.tasks:RegularTask._run_new',
               'mistral.engine.task_handler:_refresh_task_state',
               'mistral.engine.task_handler:continue_task',
               'mistral.engine.task_handler:complete_task',
               'mistral.engine.task_handler:create_task',
               'mistral.engine.task_handler:_check_affected_tasks',
               'mistral.workflow.direct_workflow:'
               'DirectWorkflowController._configure_if_join',
               'mistral.workflow.direct_workflow:'
               'DirectWorkflowController.'
               'find_indirectly_affected_task_executions'],
    bounds={'quick': 'shapes fork_join, join_2_of_3_mixed, join_one, '
                     'nested_joins, conditional, join_fed_by_error; symbolic '
                     'outcomes / guards; all delivery orders with <= 1 '
                     'out-of-order delivery',
            'thorough': '<= 2 out-of-order deliveries'},
    stubs=['minidb', 'QueueRPC', 'FakeScheduler', 'FakeExecutor',
           'post-commit queue inline', 'expr_stub for guards'],
    outside='joins that lie on a cycle (acknowledged TODO in the code)',
    timeout=(400, 2400))
def c04_e(ctx):
    """after every delivery: a started join has the required number of
    completed-and-routed inbound tasks, its action is dispatched at most
    once, and no task is created twice"""
    boot()
    for shape in ('fork_join', 'join_2_of_3_mixed', 'join_one',
                  'nested_joins', 'conditional', 'join_fed_by_error'):
        yield Case(shape, _c04_e_case(shape, shapes.RUN_SHAPES[shape],
                                      ctx.pick(1, 2)),
                   needed=['quiescent', 'join-started'], max_paths=300000,
                   replay=_strong_join_reset if shape == 'join_one'
                   else None)


# ---------------------------------------------------------------------------
# C04.3  two engine processes complete the two inbound branches of a join
# at the same time
# ---------------------------------------------------------------------------
def _c04_3_case(preemptions, rollback_one=False):
    def case():
        from vt.world import World
        from vt import actors as A
        from mistral_lib import actions as ml
        from mistral import context
        w = World([shapes.FORK_JOIN], multi_process=True)
        with w:
            wid = w.start('wf')
            # FIFO until both branches are running with their action pending

            def both_running(world):
                acts_ = [e for e in world.events if e.kind == 'action']
                ts = {t['name']: t['state'] for t in world.tasks(wid)}
                return len(acts_) == 2 and ts.get('b') == 'RUNNING' \
                    and ts.get('c') == 'RUNNING' and len(world.events) == 2
            w.run(result_of=lambda ev: ml.Result(data='ok'),
                  stop_when=both_running)
            evs = [e for e in w.events if e.kind == 'action']
            assume(len(evs) == 2)
            for e in evs:
                w.take(e)
            acts = A.Actors(max_steps=600, preemptions=preemptions)
            A.attach(w.db, acts)
            ctx0 = context.ctx()

            def proc(ev):
                def run():
                    context.set_ctx(ctx0)
                    w.call('on_action_complete', ev.payload['id'],
                           ml.Result(data='ok'))
                return run
            acts.spawn('E1', proc(evs[0]))
            acts.spawn('E2', proc(evs[1]))
            acts.run()
            w.db.on_op = None
            w.db.on_block = None
            note('schedule', acts.schedule_str())
            sig = 'C04.3:'
            joins = [t for t in w.tasks(wid) if t['name'] == 'j']
            reach('raced')
            if acts.used_preemptions:
                reach('interleaved')
            check(not w.errors, 'engine-call-failed',
                  {'signature': sig + 'error',
                   'errors': [repr(e)[:200] for e in w.errors]})
            check(len(joins) == 1, 'join-row-count-wrong',
                  {'signature': sig + 'join-rows', 'n': len(joins)})
            for n in ('b', 'c'):
                t = w.task(n, wid)
                check(t['state'] == 'SUCCESS' and
                      [x[0] for x in t['next_tasks']] == ['j'],
                      'branch-not-completed', {'signature': sig + 'branch'})
            check(not w.rows('NamedLock'), 'named-lock-left-behind',
                  {'signature': sig + 'lock-left'})
            # then everything is delivered: j runs exactly once
            w.run(result_of=lambda ev: ml.Result(data='ok'))
            j = w.task('j', wid)
            check(w.wf_ex(wid)['state'] == 'SUCCESS' and j is not None
                  and j['state'] == 'SUCCESS',
                  'run-not-finished', {'signature': sig + 'stuck',
                                       'summary': w.summary()})
            if j is not None:
                check(len(w.actions(j['id'])) == 1, 'join-ran-twice',
                      {'signature': sig + 'join-twice'})
    return case


def _c04_3_refresh_case(preemptions):
    """both inbound branches have completed; two of the pending
    'refresh join state' jobs are picked up by two engine processes"""
    def case():
        from vt.world import World
        from vt import actors as A
        from mistral_lib import actions as ml
        from mistral import context
        w = World([shapes.FORK_JOIN], multi_process=True)
        # the 'is a refresh job already scheduled?' check of one process
        # does not see the job the other process is about to insert
        w.job_dedupe = False
        with w:
            wid = w.start('wf')

            def not_refresh(events):
                for e in events:
                    if e.kind == 'job' and 'refresh' in e.label:
                        continue
                    return e
                return None
            w.run(chooser=not_refresh,
                  result_of=lambda ev: ml.Result(data='ok'))
            jobs = [e for e in w.events if e.kind == 'job'
                    and 'refresh' in e.label]
            ts = {t['name']: t['state'] for t in w.tasks(wid)}
            assume(len(jobs) >= 2 and ts.get('b') == 'SUCCESS'
                   and ts.get('c') == 'SUCCESS' and ts.get('j') == 'WAITING')
            reach('two-jobs-pending')
            j1, j2 = jobs[0], jobs[1]
            w.take(j1)
            w.take(j2)
            acts = A.Actors(max_steps=600, preemptions=preemptions)
            A.attach(w.db, acts)
            ctx0 = context.ctx()

            def proc(ev):
                def run():
                    context.set_ctx(ev.ctx or ctx0)
                    w.fire(ev.payload)
                return run
            acts.spawn('S1', proc(j1))
            acts.spawn('S2', proc(j2))
            acts.run()
            w.db.on_op = None
            w.db.on_block = None
            note('schedule', acts.schedule_str())
            sig = 'C04.3r:'
            reach('raced')
            if acts.used_preemptions:
                reach('interleaved')
            from mistral import exceptions as exc
            bad = [(m, repr(e)[:200]) for m, e in w.errors
                   if not isinstance(e, exc.MistralException)]
            check(not bad, 'refresh-job-failed',
                  {'signature': sig + 'error', 'errors': bad})
            check(not w.rows('NamedLock'), 'named-lock-left-behind',
                  {'signature': sig + 'lock-left'})
            w.run(result_of=lambda ev: ml.Result(data='ok'))
            j = w.task('j', wid)
            check(w.wf_ex(wid)['state'] == 'SUCCESS' and j is not None
                  and j['state'] == 'SUCCESS',
                  'run-not-finished', {'signature': sig + 'stuck',
                                       'summary': w.summary()})
            if j is not None:
                check(len(w.actions(j['id'])) == 1, 'join-ran-twice',
                      {'signature': sig + 'join-twice',
                       'n': len(w.actions(j['id'])),
                       'schedule': acts.schedule_str()})
    return case


@obligation(
    'C04.3', engine='symx-actors+world(minidb)',
    functions=['mistral.engine.tasks:Task.defer',
               'mistral.db.v2.sqlalchemy.api:named_lock',
               'mistral.db.v2.sqlalchemy.api:create_named_lock',
               'mistral.db.v2.sqlalchemy.api:delete_named_lock',
               'mistral.db.v2.sqlalchemy.api:create_task_execution',
               'mistral.engine.default_engine:DefaultEngine.on_action_complete',
               'mistral.engine.task_handler:_check_affected_tasks',
               'mistral.engine.task_handler:_refresh_task_state',
               'mistral.db.v2.sqlalchemy.api:refresh'],
    bounds={'quick': 'fork/join; the two inbound branches complete (and, '
                     'second case, two pending refresh jobs of the join '
                     'run) in two '
                     'engine processes whose DB statements interleave with '
                     '<= 2 context switches (every statement is a possible '
                     'switch point; READ COMMITTED overlay, unique-index and '
                     'row locks block)',
            'thorough': '<= 3 context switches'},
    stubs=['minidb', 'QueueRPC', 'FakeScheduler', 'FakeExecutor'],
    outside='more than two concurrent completions; DB engines\' own lock '
            'implementation',
    timeout=(400, 2400))
def c04_3(ctx):
    """exactly one task execution row for the join survives, both branches
    are recorded as routed to it, no named lock is left, and the join then
    runs exactly once - also when two of its 'refresh state' jobs run in two
    engine processes at the same time"""
    boot()
    yield Case('two-branches', _c04_3_case(ctx.pick(2, 3)),
               needed=['raced', 'interleaved'], shard_depth=10, procs=14,
               max_paths=1000000)
    yield Case('two-refresh-jobs', _c04_3_refresh_case(ctx.pick(2, 3)),
               needed=['two-jobs-pending', 'raced', 'interleaved'],
               shard_depth=8, procs=14, max_paths=1000000)


# ---------------------------------------------------------------------------
# C04.G  the join invariants over generated shapes
# ---------------------------------------------------------------------------
def _c04_g_case(n, kinds, joins, preemptions):
    def case():
        key, text = C01.gen_shape(n, kinds, joins)
        note('shape', key)
        if 'join' not in text:
            raise symx.PathAbort()
        inner = _c04_e_case('gen%d' % n, text, preemptions)
        inner()
        reach('shape-ran')
    return case


@obligation(
    'C04.G', engine='symx+world(minidb)',
    functions=['mistral.engine.tasks:Task.defer',
               'mistral.engine.task_handler:_refresh_task_state',
               'mistral.engine.task_handler:_check_affected_tasks',
               'mistral.workflow.direct_workflow:'
               'DirectWorkflowController._get_join_logical_state',
               'mistral.workflow.direct_workflow:'
               'DirectWorkflowController._configure_if_join'],
    bounds={'quick': 'every direct workflow over 3 tasks that contains a join '
                     '(routes none / on-success / on-error / on-complete per '
                     'pair, join all / one / 2); outcomes symbolic; <= 1 '
                     'out-of-order delivery',
            'thorough': 'every such workflow over 4 tasks with routes none / '
                        'on-success / on-error and joins all / one'},
    stubs=['minidb', 'QueueRPC', 'FakeScheduler', 'FakeExecutor',
           'post-commit queue inline'],
    outside='cycles, guards, more than 4 tasks',
    timeout=(400, 3000))
def c04_g(ctx):
    """in every generated shape with a join, after every delivery: a
    started join has the required number of completed-and-routed inbound
    tasks, its action is dispatched at most once, no task is created twice"""
    boot()
    if ctx.quick:
        yield Case('3-tasks', _c04_g_case(3, ['none', 'S', 'E', 'C'],
                                          ['all', 'one', 2], 1),
                   needed=['shape-ran', 'join-started', 'quiescent'],
                   max_paths=2000000, shard_depth=7, procs=14)
    else:
        yield Case('4-tasks', _c04_g_case(4, ['none', 'S', 'E'],
                                          ['all', 'one'], 1),
                   needed=['shape-ran', 'join-started', 'quiescent'],
                   max_paths=5000000, shard_depth=8, procs=14)
