"""Strong replay (real engine, real sqlite): 'join: one' whose second inbound
branch completes after the join already ran."""
import mistral.tests.unit  # noqa
import time

from mistral.db.v2 import api as db_api
from mistral.services import workflows as wf_service
from mistral.tests.unit.engine import base
from mistral.workflow import states

WF = """
version: '2.0'
wf:
  tasks:
    a:
      action: std.noop
      on-success: j
    b:
      action: std.sleep seconds=4
      on-success: j
    j:
      join: one
      action: std.echo output="joined"
"""


class T(base.EngineTestCase):
    def test_it(self):
        wf_service.create_workflows(WF)
        wf_ex = self.engine.start_workflow('wf')
        seen = []
        deadline = time.time() + 25
        while time.time() < deadline:
            with db_api.transaction():
                ex = db_api.get_workflow_execution(wf_ex.id)
                st = {t.name: t.state for t in ex.task_executions}
                n_act = {t.name: len(t.action_executions)
                         for t in ex.task_executions}
                wf_state = ex.state
            if not seen or seen[-1] != (wf_state, st, n_act):
                seen.append((wf_state, st, n_act))
                print('STRONG state', wf_state, st, n_act, flush=True)
            if states.is_completed(wf_state) and \
                    st.get('b') == 'SUCCESS':
                time.sleep(3)
                with db_api.transaction():
                    ex = db_api.get_workflow_execution(wf_ex.id)
                    st = {t.name: t.state for t in ex.task_executions}
                    n_act = {t.name: len(t.action_executions)
                             for t in ex.task_executions}
                print('STRONG final', ex.state, st, n_act, flush=True)
                break
            time.sleep(0.5)
        j_states = [s[1].get('j') for s in seen if 'j' in s[1]]
        left_success = any(
            x == 'SUCCESS' and y != 'SUCCESS'
            for x, y in zip(j_states, j_states[1:]))
        if left_success or n_act.get('j', 0) > 1:
            print('STRONG-VIOLATION join task j left SUCCESS=%s and ran %s '
                  'times (states seen: %s)' % (left_success, n_act.get('j'),
                                               j_states), flush=True)
            self.fail('join ran more than once')
