"""Strong replay (real engine): partial rerun (reset=False) of a with-items
task whose FIRST item failed and second succeeded."""
import mistral.tests.unit  # noqa
import time
from unittest import mock

from mistral.db.v2 import api as db_api
from mistral.actions import std_actions
from mistral.services import workflows as wf_service
from mistral.tests.unit.engine import base
from mistral.workflow import states
from mistral import exceptions as exc

WF = """
version: '2.0'
wf:
  tasks:
    t:
      with-items: i in [0, 1]
      action: std.echo output=<% $.i %>
"""

CALLS = []


def echo_run(self, context):
    CALLS.append(self.output)
    if self.output == 0 and CALLS.count(0) == 1:
        raise exc.ActionException('first item fails once')
    return self.output


class T(base.EngineTestCase):
    @mock.patch.object(std_actions.EchoAction, 'run', echo_run)
    def test_it(self):
        del CALLS[:]
        wf_service.create_workflows(WF)
        wf_ex = self.engine.start_workflow('wf')
        self.await_workflow_error(wf_ex.id)
        with db_api.transaction():
            ex = db_api.get_workflow_execution(wf_ex.id)
            t = ex.task_executions[0]
            tid = t.id
            print('STRONG first run', ex.state, t.state, sorted(
                (a.runtime_context['index'], a.state, a.accepted)
                for a in t.action_executions), flush=True)
        self.engine.rerun_workflow(tid, reset=False)
        deadline = time.time() + 12
        while time.time() < deadline:
            with db_api.transaction():
                ex = db_api.get_workflow_execution(wf_ex.id)
                t = ex.task_executions[0]
                st = ex.state
                acts = sorted((a.runtime_context['index'], a.state,
                               a.accepted) for a in t.action_executions)
            if states.is_completed(st):
                break
            time.sleep(1)
        print('STRONG after rerun', st, acts, 'action calls', CALLS,
              flush=True)
        runs_of_1 = CALLS.count(1)
        if runs_of_1 > 1 or not states.is_completed(st):
            print('STRONG-VIOLATION partial rerun re-executed the successful '
                  'item %d times; workflow state %s' % (runs_of_1, st),
                  flush=True)
            self.fail('partial rerun wrong')
