"""Strong replay of C01.2/C04 'cycle upstream of a join' through the real
engine (EngineTestCase: real engine threads, real sqlite, fake transport)."""
import mistral.tests.unit  # noqa
import time

from mistral.db.v2 import api as db_api
from mistral.services import workflows as wf_service
from mistral.tests.unit.engine import base
from mistral.workflow import states

WF = """
version: '2.0'
wf:
  input:
    - x: false
    - y: false
  tasks:
    s:
      action: std.noop
      on-success:
        - a: <% $.x %>
        - c
    a:
      action: std.noop
      on-success: b
    b:
      action: std.noop
      on-success:
        - a: <% $.y %>
        - j
    c:
      action: std.noop
      on-success: j
    j:
      join: all
      action: std.noop
"""


class T(base.EngineTestCase):
    def test_it(self):
        wf_service.create_workflows(WF)
        wf_ex = self.engine.start_workflow('wf')
        deadline = time.time() + 12
        state = None
        while time.time() < deadline:
            with db_api.transaction():
                ex = db_api.get_workflow_execution(wf_ex.id)
                state = ex.state
                tasks = sorted((t.name, t.state) for t in ex.task_executions)
            if states.is_completed(state):
                break
            time.sleep(1)
        print('STRONG final', state, tasks, flush=True)
        if not states.is_completed(state):
            print('STRONG-VIOLATION workflow never finishes: %s %s'
                  % (state, tasks), flush=True)
            self.fail('workflow stuck')
