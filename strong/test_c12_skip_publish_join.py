"""Strong replay (real engine, sqlite): a failed task is skipped; the
variable it publishes on skip must be visible in the join it routes to."""
import mistral.tests.unit  # noqa
import time

from mistral.db.v2 import api as db_api
from mistral.services import workflows as wf_service
from mistral.tests.unit.engine import base
from mistral.workflow import states

WF = """
version: '2.0'
wf:
  output:
    seen_j: <% $.get(seen_j, none) %>
  tasks:
    r:
      action: std.noop
      on-success: [a, b]
    a:
      action: std.fail
      publish-on-skip:
        v: skipped
      on-skip: j
    b:
      action: std.noop
      on-success: j
    j:
      join: all
      action: std.noop
      publish:
        seen_j: <% $.get(v, none) %>
"""


class T(base.EngineTestCase):
    def test_it(self):
        wf_service.create_workflows(WF)
        wf_ex = self.engine.start_workflow('wf')
        self.await_workflow_error(wf_ex.id)
        with db_api.transaction():
            ex = db_api.get_workflow_execution(wf_ex.id)
            a = [t for t in ex.task_executions if t.name == 'a'][0]
            aid = a.id
        self.engine.rerun_workflow(aid, skip=True)
        deadline = time.time() + 15
        while time.time() < deadline:
            with db_api.transaction():
                ex = db_api.get_workflow_execution(wf_ex.id)
                st, out = ex.state, ex.output
            if states.is_completed(st):
                break
            time.sleep(0.5)
        print('STRONG after skip', st, out, flush=True)
        if st != states.SUCCESS or (out or {}).get('seen_j') != 'skipped':
            print('STRONG-VIOLATION the join after a skipped task sees '
                  'v=%r instead of the value published on skip (state %s)'
                  % ((out or {}).get('seen_j'), st), flush=True)
            self.fail('publish-on-skip lost at the join')
