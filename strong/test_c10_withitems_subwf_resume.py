"""Strong replay (real engine, real scheduler threads, sqlite): a with-items
task over two sub-workflows.  One child is paused by the operator (the pause cascades to the parent and
the sibling), the sibling's action completes while paused, the parent is
resumed: the sibling finishes at once.
The deferred 'action update' notification of the finished child must not
complete the parent's with-items task - the other child is still running."""
import mistral.tests.unit  # noqa
import time

from mistral.db.v2 import api as db_api
from mistral.services import workflows as wf_service
from mistral.tests.unit.engine import base
from mistral.workflow import states
from mistral_lib import actions as ml_actions

WF = """
version: '2.0'
parent:
  tasks:
    p1:
      with-items: i in [0, 1]
      workflow: child
      on-success: p2
    p2:
      action: std.noop
child:
  tasks:
    c1:
      action: std.async_noop
"""


class T(base.EngineTestCase):
    def _snapshot(self, wf_ex_id):
        with db_api.transaction():
            ex = db_api.get_workflow_execution(wf_ex_id)
            tasks = {t.name: t.state for t in ex.task_executions}
            kids = []
            for t in ex.task_executions:
                for k in t.workflow_executions:
                    acts = [(a.id, a.state) for ct in k.task_executions
                            for a in ct.action_executions]
                    kids.append((k.id, k.state, acts))
            return ex.state, tasks, sorted(kids)

    def _wait(self, cond, wf_ex_id, secs=15):
        deadline = time.time() + secs
        snap = None
        while time.time() < deadline:
            snap = self._snapshot(wf_ex_id)
            if cond(snap):
                return snap
            time.sleep(0.5)
        return snap

    def test_it(self):
        wf_service.create_workflows(WF)
        wf_ex = self.engine.start_workflow('parent')
        snap = self._wait(lambda s: len(s[2]) == 2 and all(
            k[2] and k[2][0][1] == states.RUNNING for k in s[2]), wf_ex.id)
        print('STRONG started', snap, flush=True)
        # the operator pauses ONE sub-workflow: the pause travels up to the
        # parent and from there down to the sibling
        self.engine.pause_workflow(snap[2][0][0])
        snap = self._wait(lambda s: s[0] == states.PAUSED and all(
            k[1] == states.PAUSED for k in s[2]), wf_ex.id)
        print('STRONG paused', snap, flush=True)
        sibling = snap[2][1]
        self.engine.on_action_complete(sibling[2][0][0],
                                       ml_actions.Result(data='done'))
        time.sleep(2)
        self.engine.resume_workflow(wf_ex.id)
        # the other child's async action never completes: the with-items
        # task and the parent must stay RUNNING
        time.sleep(6)
        snap = self._snapshot(wf_ex.id)
        print('STRONG after resume', snap, flush=True)
        running_kids = [k for k in snap[2] if k[1] == states.RUNNING]
        if running_kids and (snap[1].get('p1') != states.RUNNING or
                             snap[0] != states.RUNNING):
            print('STRONG-VIOLATION with-items task p1 is %s and the parent '
                  'workflow %s while a sub-workflow is still RUNNING; tasks '
                  '%s' % (snap[1].get('p1'), snap[0], snap[1]), flush=True)
            self.fail('parent completed early')
