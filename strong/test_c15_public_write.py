"""Strong replay (real db-api on sqlite, auth enabled): a non-owner,
non-admin project changes and deletes another project's PUBLIC resources."""
import mistral.tests.unit  # noqa
from oslo_config import cfg

from mistral import context as auth_ctx
from mistral.db.v2 import api as db_api
from mistral.tests.unit import base


def ctx(project):
    return auth_ctx.MistralContext(user_id='u-' + project,
                                   project_id=project, auth_token='t',
                                   is_admin=False)


class T(base.DbTestCase):
    def test_it(self):
        cfg.CONF.set_default('auth_enable', True, group='pecan')
        self.addCleanup(cfg.CONF.set_default, 'auth_enable', False,
                        group='pecan')
        auth_ctx.set_ctx(ctx('owner'))
        db_api.create_environment({'name': 'pubenv', 'variables': {'k': 1},
                                   'scope': 'public'})
        db_api.create_environment({'name': 'privenv', 'variables': {'k': 1},
                                   'scope': 'private'})
        auth_ctx.set_ctx(ctx('intruder'))
        changed = []
        try:
            db_api.update_environment('pubenv', {'variables': {'k': 666}})
            changed.append('update_environment(public)')
        except Exception as e:
            print('STRONG update refused', type(e).__name__, flush=True)
        try:
            db_api.update_environment('privenv', {'variables': {'k': 666}})
            changed.append('update_environment(PRIVATE)')
        except Exception as e:
            print('STRONG private update refused', type(e).__name__,
                  flush=True)
        try:
            db_api.delete_environment('pubenv')
            changed.append('delete_environment(public)')
        except Exception as e:
            print('STRONG delete refused', type(e).__name__, flush=True)
        auth_ctx.set_ctx(ctx('owner'))
        left = [(e.name, e.variables) for e in db_api.get_environments()]
        print('STRONG owner now sees', left, flush=True)
        if changed:
            print('STRONG-VIOLATION project "intruder" performed %s on '
                  'resources of project "owner"' % changed, flush=True)
            self.fail('foreign write')
