"""Strong replay (real engine): a join command saved to the backlog by the
'pause' engine command must still be a join after resume."""
import mistral.tests.unit  # noqa
import time

from mistral.db.v2 import api as db_api
from mistral.services import workflows as wf_service
from mistral.tests.unit.engine import base
from mistral.workflow import states

WF = """
version: '2.0'
wf:
  tasks:
    a:
      action: std.noop
      on-success: [pause, j]
    b:
      action: std.async_noop
      on-success: j
    j:
      join: all
      action: std.noop
"""


class T(base.EngineTestCase):
    def _snap(self, wid):
        with db_api.transaction():
            ex = db_api.get_workflow_execution(wid)
            return ex.state, sorted((t.name, t.state, t.unique_key)
                                    for t in ex.task_executions)

    def test_it(self):
        wf_service.create_workflows(WF)
        wf_ex = self.engine.start_workflow('wf')
        deadline = time.time() + 15
        while time.time() < deadline:
            st, tasks = self._snap(wf_ex.id)
            if st == states.PAUSED:
                break
            time.sleep(0.5)
        print('STRONG paused', st, tasks, flush=True)
        self.engine.resume_workflow(wf_ex.id)
        time.sleep(6)
        st, tasks = self._snap(wf_ex.id)
        print('STRONG after resume', st, tasks, flush=True)
        b = [t for t in tasks if t[0] == 'b'][0]
        js = [t for t in tasks if t[0] == 'j']
        if b[1] == states.RUNNING and any(
                t[1] in (states.RUNNING, states.SUCCESS) for t in js):
            print('STRONG-VIOLATION join j started (%s) while inbound task '
                  'b is still RUNNING' % js, flush=True)
            self.fail('join ran before its inbound task')
