"""Strong replay (real engine, real threads, sqlite): a with-items task with
4 items and concurrency 2 whose items all failed is rerun (reset=True): every
item must run exactly once more and all four results must be the new ones."""
import mistral.tests.unit  # noqa
import time
from unittest import mock

from mistral.db.v2 import api as db_api
from mistral.actions import std_actions
from mistral.services import workflows as wf_service
from mistral.tests.unit.engine import base
from mistral.workflow import states
from mistral import exceptions as exc

WF = """
version: '2.0'
wf:
  tasks:
    t:
      with-items: i in [0, 1, 2, 3]
      concurrency: 2
      action: std.echo output=<% $.i %>
"""

CALLS = []
PHASE = [1]


def echo_run(self, context):
    CALLS.append((PHASE[0], self.output))
    if PHASE[0] == 1:
        raise exc.ActionException('first pass fails')
    return 'new%s' % self.output


class T(base.EngineTestCase):
    @mock.patch.object(std_actions.EchoAction, 'run', echo_run)
    def test_it(self):
        del CALLS[:]
        PHASE[0] = 1
        wf_service.create_workflows(WF)
        wf_ex = self.engine.start_workflow('wf')
        self.await_workflow_error(wf_ex.id)
        with db_api.transaction():
            ex = db_api.get_workflow_execution(wf_ex.id)
            tid = ex.task_executions[0].id
        PHASE[0] = 2
        self.engine.rerun_workflow(tid, reset=True)
        deadline = time.time() + 20
        st, acts, result = None, None, None
        while time.time() < deadline:
            with db_api.transaction():
                ex = db_api.get_workflow_execution(wf_ex.id)
                t = ex.task_executions[0]
                st = ex.state
                acts = sorted((a.runtime_context['index'], a.state,
                               a.accepted) for a in t.action_executions)
            if states.is_completed(st):
                break
            time.sleep(1)
        second = sorted(i for p, i in CALLS if p == 2)
        print('STRONG after rerun', st, acts, 'second-pass calls', second,
              flush=True)
        if second != [0, 1, 2, 3] or st != states.SUCCESS:
            print('STRONG-VIOLATION rerun of a with-items task (4 items, '
                  'concurrency 2) ran items %s in the second pass; workflow '
                  'state %s' % (second, st), flush=True)
            self.fail('with-items rerun wrong')
