"""Strong replay (real engine, real scheduler, sqlite): a task with
'wait-before' whose action input is invalid must end in ERROR (as it does
without 'wait-before'); the workflow must not stay RUNNING."""
import mistral.tests.unit  # noqa
import time

from mistral.db.v2 import api as db_api
from mistral.services import workflows as wf_service
from mistral.tests.unit.engine import base
from mistral.workflow import states

WF = """
version: '2.0'
wf:
  tasks:
    t1:
      action: std.echo output=1
      input:
        extra: 1
      wait-before: 1
"""


class T(base.EngineTestCase):
    def test_it(self):
        wf_service.create_workflows(WF)
        wf_ex = self.engine.start_workflow('wf')
        deadline = time.time() + 15
        st, tasks = None, None
        while time.time() < deadline:
            with db_api.transaction():
                ex = db_api.get_workflow_execution(wf_ex.id)
                st = ex.state
                tasks = [(t.name, t.state) for t in ex.task_executions]
            if states.is_completed(st):
                break
            time.sleep(1)
        print('STRONG after 15s', st, tasks, flush=True)
        if not states.is_completed(st):
            print('STRONG-VIOLATION workflow still %s, tasks %s: the task '
                  'that could not be started after wait-before is stuck'
                  % (st, tasks), flush=True)
            self.fail('stuck')
