import mistral.tests.unit  # noqa
import datetime, sys
from unittest import mock
from oslo_config import cfg
from mistral.tests.unit import base
from mistral.db.v2 import api as db_api
from mistral.services import periodic, triggers, security, workflows
from mistral import context as auth_ctx
from mistral.rpc import clients as rpc

WF = """
version: '2.0'
wf:
  tasks:
    t1:
      action: std.noop
"""

class T(base.DbTestCase):
    def test_it(self):
        cfg.CONF.set_default('auth_enable', True, group='pecan')
        self.addCleanup(cfg.CONF.set_default, 'auth_enable', False, group='pecan')
        fired = []
        from mistral.db.sqlalchemy import base as b
        with db_api.transaction():
            b._get_thread_local_session().connection().exec_driver_sql('PRAGMA reverse_unordered_selects = 1')
            print('PRAGMA', b._get_thread_local_session().connection().exec_driver_sql('PRAGMA reverse_unordered_selects').fetchall())
        class Rpc:
            def start_workflow(self, name, ns, ex_id, inp, description='', **params):
                fired.append((auth_ctx.ctx().project_id, name, inp))
        nxt = datetime.datetime.utcnow().replace(microsecond=0) - datetime.timedelta(seconds=5)
        for proj, scope, tid in (('proj-a', 'private', 'ffffffff-a'), ('proj-b', 'public', '00000000-b')):
            auth_ctx.set_ctx(auth_ctx.MistralContext(user_id='u', project_id=proj, auth_token='t', is_admin=False))
            wf = workflows.create_workflows(WF, scope=scope)[0]
            db_api.create_cron_trigger({'id': tid, 'name': 'trig', 'pattern': '* * * * *',
                'next_execution_time': nxt, 'remaining_executions': None, 'workflow_name': 'wf',
                'workflow_id': wf.id, 'workflow_input': {'who': proj}, 'workflow_params': {},
                'trust_id': 'trust-' + proj, 'scope': scope})
        auth_ctx.set_ctx(None)
        with mock.patch.object(security, 'create_context', lambda tr, pr: auth_ctx.MistralContext(user_id='x', project_id=pr, auth_token='t', trust_id=tr, is_trust_scoped=True)), \
             mock.patch.object(rpc, 'get_engine_client', lambda: Rpc()), \
             mock.patch.object(security, 'delete_trust', lambda *a, **k: None):
            for i in range(3):
                periodic.process_cron_triggers_v2(None, None)
                auth_ctx.set_ctx(auth_ctx.MistralContext(user_id='u', project_id=None, auth_token='t', is_admin=True))
                print('pass', i, [(t.id, t.project_id, str(t.next_execution_time)) for t in db_api.get_cron_triggers(insecure=True)], fired)
                auth_ctx.set_ctx(None)
        print('FIRED', fired)
        a = [f for f in fired if f[0] == 'proj-a']
        b_ = [f for f in fired if f[0] == 'proj-b']
        print('STRONG fired', fired)
        if len(a) != 1 or len(b_) != 1:
            print('STRONG-VIOLATION one due occurrence each, but project A '
                  'fired %d times and project B %d times' % (len(a), len(b_)))
            self.fail('cron trigger name collision')
