"""Strong replay (real engine): pause while the branches feeding a join are
running, resume after they completed."""
import mistral.tests.unit  # noqa
import time

from mistral.db.v2 import api as db_api
from mistral.services import workflows as wf_service
from mistral.tests.unit.engine import base
from mistral.workflow import states

WF = """
version: '2.0'
wf:
  tasks:
    a:
      action: std.sleep seconds=2
      on-success: j
    b:
      action: std.sleep seconds=2
      on-success: j
    j:
      join: all
      action: std.noop
"""


class T(base.EngineTestCase):
    def _snap(self, wid):
        with db_api.transaction():
            ex = db_api.get_workflow_execution(wid)
            return ex.state, sorted((t.name, t.state)
                                    for t in ex.task_executions)

    def test_it(self):
        wf_service.create_workflows(WF)
        wf_ex = self.engine.start_workflow('wf')
        time.sleep(0.7)
        self.engine.pause_workflow(wf_ex.id)
        print('STRONG paused', self._snap(wf_ex.id), flush=True)
        time.sleep(5)
        print('STRONG before resume', self._snap(wf_ex.id), flush=True)
        self.engine.resume_workflow(wf_ex.id)
        deadline = time.time() + 12
        while time.time() < deadline:
            st, tasks = self._snap(wf_ex.id)
            if states.is_completed(st):
                break
            time.sleep(1)
        print('STRONG final', st, tasks, flush=True)
        if not states.is_completed(st):
            print('STRONG-VIOLATION resumed workflow never finishes: %s %s'
                  % (st, tasks), flush=True)
            self.fail('stuck after resume')
