"""Strong replay (real engine, sqlite): a workflow is paused and resumed
while the 'start task' request of a freshly created task is still in
flight.  The resume issues a second request for the IDLE task; when the
original request is processed first the task must not be started again."""
import mistral.tests.unit  # noqa
import threading
import time
from unittest import mock

from mistral.db.v2 import api as db_api
from mistral.engine import default_engine
from mistral.services import workflows as wf_service
from mistral.tests.unit.engine import base
from mistral.workflow import states

WF = """
version: '2.0'
wf:
  tasks:
    t:
      action: std.noop
"""

HELD = []
HOLD = [True]
LOCK = threading.Lock()
REAL = default_engine.DefaultEngine.start_task


def start_task(self, *a, **kw):
    with LOCK:
        if HOLD[0]:
            HELD.append((self, a, kw))
            return None
    return REAL(self, *a, **kw)


class T(base.EngineTestCase):
    @mock.patch.object(default_engine.DefaultEngine, 'start_task',
                       start_task)
    def test_it(self):
        del HELD[:]
        HOLD[0] = True
        wf_service.create_workflows(WF)
        wf_ex = self.engine.start_workflow('wf')
        deadline = time.time() + 10
        while time.time() < deadline and len(HELD) < 1:
            time.sleep(0.2)
        self.engine.pause_workflow(wf_ex.id)
        self.engine.resume_workflow(wf_ex.id)
        deadline = time.time() + 10
        while time.time() < deadline and len(HELD) < 2:
            time.sleep(0.2)
        print('STRONG held start_task requests', [(a, kw) for _, a, kw
                                                  in HELD], flush=True)
        with LOCK:
            HOLD[0] = False
            held = list(HELD)
        for eng, a, kw in held:          # the original request first
            REAL(eng, *a, **kw)
        deadline = time.time() + 15
        st, acts = None, None
        while time.time() < deadline:
            with db_api.transaction():
                ex = db_api.get_workflow_execution(wf_ex.id)
                st = ex.state
                acts = [(a.name, a.state) for t in ex.task_executions
                        for a in t.action_executions]
            if states.is_completed(st):
                break
            time.sleep(0.5)
        time.sleep(2)
        with db_api.transaction():
            ex = db_api.get_workflow_execution(wf_ex.id)
            st = ex.state
            acts = [(a.name, a.state) for t in ex.task_executions
                    for a in t.action_executions]
        print('STRONG end', st, acts, flush=True)
        if len(held) >= 2 and len(acts) != 1:
            print('STRONG-VIOLATION task t has %d action executions after '
                  'pause + resume with its start request in flight: %s'
                  % (len(acts), acts), flush=True)
            self.fail('task started twice')
